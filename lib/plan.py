"""Per-property plan: which engine parts run, with which budgets (DESIGN.md section 3)."""

LINUX3 = "x86_64_linux,aarch64_linux,arm_linux"
ALLV = "x86_64_linux,aarch64_linux,arm_linux,x86_64_windows,aarch64_windows,x86_64_macos,aarch64_macos"

COMPONENTS = {
    "S": {
        "real_code": ["src/interface/*.rs (transplanted from the working tree)", "src/injector_core/*.rs incl. arm/arm64/windows/macos branches (transplanted, cfg-folded)"],
        "stubbed": ["kernel mmap/munmap/mprotect/VirtualAlloc/mach_vm_* (SimWorld)", "memory holding targets and trampolines (SimWorld)", "CPU executing patched code (reference interpreters x86-64/A64/A32/T32)", "instruction-cache primitives (logged)"],
    },
    "N": {
        "real_code": ["the unmodified injectorpp crate from /repo", "Linux kernel memory management", "x86-64 CPU executing the patched code"],
        "stubbed": ["mmap/munmap/mprotect/__clear_cache symbols interposed by the harness executable (forwarding to the kernel; injected failures are stubbed returns)"],
    },
    "C": {
        "real_code": ["macro_rules! fake from src/interface/macros.rs expanded by rustc in generated programs linked against the unmodified injectorpp rlib", "x86-64 CPU, Linux"],
        "stubbed": [],
    },
    "T": {
        "real_code": ["src/** from the working tree with std::sync swapped for simsched::sync in src/interface", "real machine-code patching of real functions"],
        "stubbed": ["thread scheduler (simsched decides every interleaving at Mutex/atomic operations)"],
    },
}


def n_part(name, profile, quick, thorough, selftest=48, extra_args=None):
    return {"name": name, "engine": "N", "bin": "vnative", "args": ["--profile", profile] + (extra_args or []),
            "count": {"quick": quick, "thorough": thorough}, "selftest_count": selftest}


def t_part(name, family, profile, quick, thorough, selftest=200):
    return {"name": name, "engine": "T", "bin": "vsched", "args": ["--family", family, "--profile", profile],
            "count": {"quick": quick, "thorough": thorough}, "selftest_count": selftest}


def s_part(name, profile, variants, quick, thorough, selftest=300):
    return {"name": name, "engine": "S", "bin": "vsim", "args": ["--profile", profile, "--variants", variants],
            "count": {"quick": quick, "thorough": thorough}, "selftest_count": selftest}


A_S = "engine S: the rewrite table of DESIGN 2.1 preserves meaning; the SimWorld kernel model and the reference interpreters are correct; sampled, not exhaustive"
A_N = "engine N: the Linux kernel and x86-64 CPU of this sandbox; link-time interposition observes every OS call the crate makes"
A_T = "engine T: all atomics are sequentially consistent (the code uses SeqCst only); the scheduler decides interleavings only at Mutex/atomic/spawn/join/yield points"

PLAN = {
    "C01": {
        "level": "fault_enumeration",
        "rule": "scenario = (variant, page size, kernel policy incl. injected faults, text base class, entry page-offset class, neighbourhood class, fake class, install kinds) drawn from the seeded generator; distinct = distinct class tuples among scenarios with >=1 successful install or >=1 fired fault",
        "assumptions": [A_S, A_N],
        "parts": [
            s_part("S-x86-placements", "C01", "x86_64_linux", 40000, 2000000),
            s_part("S-other-variants", "C01", "aarch64_linux,arm_linux", 8000, 400000),
            s_part("S-windows-long-entry", "C01", "x86_64_windows,aarch64_windows", 600, 20000, selftest=60),
            s_part("S-macos", "C01", "aarch64_macos,x86_64_macos", 300, 10000, selftest=40),
            n_part("N-synthetic-and-real", "C01", 480, 24000),
        ],
    },
    "C02": {
        "level": "fault_enumeration",
        "rule": "scenario = 1-4 consecutive injector lifetimes of 0-8 installs over 2-6 packed targets with repetition, exit by drop or injected panic, on a seeded layout/kernel; plus (engine N) histories whose targets include C runtime routines (memcmp/bcmp faked to answer different, strlen, strcmp, memchr, ...) judged with volatile byte loops only; distinct = distinct (variant, history shape, layout, policy) class tuples among non-trivial scenarios",
        "assumptions": [A_S, A_N],
        "parts": [s_part("S-histories", "C02", LINUX3, 24000, 2400000),
                  s_part("S-histories-windows-macos", "C02", "x86_64_windows,aarch64_windows,aarch64_macos,x86_64_macos", 800, 40000, selftest=40),
                  n_part("N-histories", "C02", 640, 64000),
                  n_part("N-c-runtime-targets", "C02", 160, 16000, selftest=16, extra_args=["--family", "crt"])],
    },
    "C03": {
        "level": "fault_enumeration",
        "rule": "as C02 with bystander functions packed between targets (16-byte pitch, or the tightest pitch the entry patch allows in a third of the layouts); every write/munmap event is judged; distinct = class tuples",
        "assumptions": [A_S, A_N],
        "parts": [s_part("S-histories", "C03", LINUX3, 24000, 2400000),
                  s_part("S-histories-windows-macos", "C03", "x86_64_windows,aarch64_windows,aarch64_macos,x86_64_macos", 800, 40000, selftest=40),
                  n_part("N-histories", "C03", 480, 48000)],
    },
    "C06": {
        "level": "fault_enumeration",
        "rule": "sequential part: lifetimes with N in 0..6, 0..N+2 matching calls interleaved with 0-3 non-matching calls, through 4 fake! sites (with/without when, unit, assign+when), exit by drop or injected panic; concurrent part (engine T): the k calls split over 1-16 threads with every fetch_add/load a scheduling point, and every counted arm of the macro (generated from the source at check time) under exactly-N calls from 2-4 threads, and 2-4 threads whose lifetimes all go through one shared site (the scope-exit verdict of each must be about its own calls: it is given while the injector is still held); distinct = (site, N, matching, rejected, exit path) tuples",
        "assumptions": [A_N, A_T],
        "parts": [n_part("N-sequential-counting", "C06", 1600, 160000, selftest=64, extra_args=["--family", "count"]),
                  t_part("T-concurrent-counting", "count", "C06", 12000, 2000000),
                  t_part("T-every-counted-arm-concurrently", "arms", "C06", 5600, 560000),
                  t_part("T-shared-site-across-threads", "sharedsite", "C06", 6000, 600000)],
    },
    "C07": {
        "level": "fault_enumeration",
        "rule": "histories of 2-6 injector lifetimes that evaluate the same fake!(..., times: N) expression (one helper per site), N and call counts redrawn per lifetime, lifetimes ending by drop, verification panic or injected panic; each lifetime is judged by the C06 model on its own calls alone; plus, under the deterministic scheduler, 2-4 threads whose lifetimes all go through one shared site (N, N-1 or N+1 calls each): every verdict must be about that lifetime's own calls whatever the interleaving; distinct = (site, per-lifetime (N, matching, rejected, exit)) tuples / interleavings",
        "assumptions": [A_N, A_T],
        "parts": [n_part("N-reused-call-sites", "C07", 1600, 160000, selftest=64, extra_args=["--family", "count"]),
                  t_part("T-shared-site-across-threads", "sharedsite", "C07", 8000, 1000000)],
    },
    "C08": {
        "level": "other",
        "rule": "every arm of macro_rules! fake as parsed from src/interface/macros.rs at check time (52 in the pinned tree): one generated well-typed instantiation per arm (function kind x unit/non-unit x option subset; out-parameter observed by `returns`, per-call sequence number), compiled separately; 24 (quick) / 2000 (thorough) seeded call scripts per arm (N in 0..4, matching and non-matching calls) compared call by call with a reference model that also predicts process aborts for non-unwinding ABIs; plus (engine T) every counted arm under exactly-N calls split over 2-4 threads of the deterministic scheduler: the budget must admit them all and the scope must end quietly; distinct = (arm, N, calls, non-matching) tuples",
        "assumptions": [A_N, A_T, "rustc accept/reject of the generated instantiation stands for 'a well-typed use'; the instantiation uses (a: u32, out: &mut u32 | *mut u32) [-> u32]"],
        "exhaustive": True,
        "parts": [{"name": "C-fake-macro-arms", "engine": "C", "py": "c08", "bin": "", "args": [], "build": ["injectorpp"], "count": {"quick": 1, "thorough": 1}},
                  t_part("T-every-counted-arm-concurrently", "arms", "C08", 2800, 280000)],
    },
    "C09": {
        "level": "fault_enumeration",
        "rule": "38 function types (arity, one parameter type, return type, reference mutability, raw-pointer mutability, unsafety, ABI C/system/Rust, one lifetime-only twin, two pairs of distinct types with the same last path segment, three instantiations of one generic helper that holds the macro call sites); all 1444 ordered (target type, replacement type) pairs, 24 per scenario (61 scenarios enumerate them; every second sweep runs each lifetime inside a destructor while another panic unwinds; further scenarios repeat them through other macro forms: func! two-argument / fn(..) / func_info:, closure!, fake!), plus null target/fake, checked-unchecked mixes, async wrong/right output type; refusal = panic with the right message before any OS event and unchanged entry; under the deterministic scheduler 2-4 threads make their typed pointers (func!, closure!) at the same time, outside any injector, and each then offers a replacement of another type (must be refused) and of the same type (must be accepted); distinct = pair blocks / interleavings",
        "assumptions": [A_N, "type_name renders structurally different fn-pointer types differently (a rustc property)", A_T],
        "exhaustive": True,
        "parts": [n_part("N-signature-pairs", "C09", 244, 24400, selftest=61, extra_args=["--family", "sigs"]),
                  t_part("T-pointers-typed-concurrently", "sigrace", "C09", 3000, 300000)],
    },
    "C14": {
        "level": "fault_enumeration",
        "rule": "9 async functions (free + methods; by-value/by-reference; (), u32 x2 siblings, bool, String x2 siblings, [u64;32]; two methods), histories of fake (checked/unchecked, two fake sites each with a sequence counter) / await (holder thread and 1-3 other threads) / re-fake / scope exit by drop or injected panic / new lifetime; single-poll executor with a no-op waker; distinct = (op shapes) tuples",
        "assumptions": [A_N, "the harness awaits by calling <F as Future>::poll through an opaque function pointer (what .await compiles to when nothing is inlined, as in the crate's own debug-profile tests)"],
        "parts": [n_part("N-async-histories", "C14", 1600, 160000, selftest=64, extra_args=["--family", "async"])],
    },
    "C10": {
        "level": "fault_enumeration",
        "rule": "gate: every signature of a 14-member family (5 genuine bool functions of different shape/ABI/unsafety, 4 whose type text merely ends in `-> bool`, 5 other returns) x both values, judged accept iff the return type is bool, refusal before any OS event; registers: synthetic bool target near/far from the image at 6 page offsets, 8 seeded register files each through the assembly probe; simulation: forced boolean on A64/ARM under the reference interpreters; under the deterministic scheduler, injector rounds of the exclusion and hand-over families also force a shared bool function (every call by the holder returns the forced value, preventers and later holders see the original, also after a holder let go by panicking); distinct = (mode, signature, value, placement, offset) tuples",
        "assumptions": [A_N, A_S, A_T],
        "exhaustive": False,
        "parts": [n_part("N-gate-and-register-probe", "C10", 504, 50400, selftest=42, extra_args=["--family", "probe"]),
                  s_part("S-boolean-stubs", "C10", "x86_64_linux,aarch64_linux,arm_linux,x86_64_windows,aarch64_windows", 6000, 600000),
                  t_part("T-forced-value-under-handover", "handover", "C10", 3000, 300000),
                  t_part("T-forced-value-under-exclusion", "excl", "C10", 3000, 300000)],
    },
    "C13": {
        "level": "fault_enumeration",
        "rule": "assembly caller loads 6 integer + 8 vector argument registers, 8 stack slots and the callee-saved set from seeded values, calls a redirected synthetic target (near the image: short trampoline; far: mov rax/jmp rax form) whose fake is an assembly routine recording the register file and returning seeded rax/rdx/xmm0/xmm1; plus Rust-level pairs (13 mixed arguments, [u64;8], (u64,u64), u128 returns); simulation: write-sets of the A64/ARM sequences; distinct = (mode, placement, offset) tuples, 8 register files per scenario",
        "assumptions": [A_N, A_S],
        "parts": [n_part("N-register-probe", "C13", 800, 80000, selftest=40, extra_args=["--family", "probe"]),
                  s_part("S-write-sets", "C13", "x86_64_linux,aarch64_linux,aarch64_macos", 6000, 600000)],
    },
    "C04": {
        "level": "exploration",
        "rule": "2-4 simulated threads, each 1-4 rounds of injector (thread-specific fake on a shared real function, 1-3 calls) or preventer (1-3 calls), released by drop or by panic; plus the handover family (a holder with a plain and a counted fake lets go by user panic, over-call, rejected arguments, refused install, unsatisfied expectation or drop while 1-2 threads wait: the next holder must find everything restored); every Mutex lock attempt/unlock, every explicit yield between harness steps, spawn and join is a scheduling point decided by a seeded scheduler (uniform random, sticky with rare preemptions, PCT-style priorities); distinct = distinct (thread, point kind) sequences (interleavings) + scenario classes",
        "assumptions": [A_T],
        "parts": [t_part("T-exclusion", "excl", "C04", 12000, 2000000),
                  t_part("T-handover-after-panic", "handover", "C04", 6000, 1000000),
                  t_part("T-shared-site-across-threads", "sharedsite", "C04", 4000, 400000)],
    },
    "C05": {
        "level": "fault_enumeration",
        "rule": "scripted body (installs of mixed kinds incl. counted fakes, calls, refusals caught in-body) with one crash point per lifetime: injected user panic at any position, propagating refusal (signature, null, boolean on non-bool, async type, ENOMEM on every RWX mmap, EACCES on mprotect), fake rejecting arguments, over-call, 0-3 unsatisfied expectations at exit alone or with an in-flight panic; 1-50 consecutive lifetimes per process; after each: bytes+behaviour original, <=1 panic, fresh thread uses a new injector (watchdog); distinct = (crash kind, pending, steps, lifetimes) tuples",
        "assumptions": [A_N, A_T],
        "parts": [n_part("N-crash-points", "C05", 1600, 160000, selftest=64, extra_args=["--family", "crash"]),
                  t_part("T-handover-after-panic", "handover", "C05", 6000, 1000000)],
    },
    "C11": {
        "level": "fault_enumeration",
        "rule": "scenario = (variant, page size 4K/16K/64K, target position incl. below 128 MiB, neighbourhood empty/full/full-except-one-page/sparse, kernel policy: faithful or buggified hint rounding/fallback placement/ENOMEM); distinct = class tuples",
        "assumptions": [A_S, A_N],
        "parts": [s_part("S-layouts", "C11", "x86_64_linux,aarch64_linux", 12000, 1000000),
                  s_part("S-layouts-windows-macos", "C11", "aarch64_windows,x86_64_windows,aarch64_macos,x86_64_macos", 400, 20000, selftest=40),
                  n_part("N-real-kernel-layouts", "C11", 160, 4000, selftest=16)],
    },
    "C12": {
        "level": "fault_enumeration",
        "rule": "as C02; the mmap/munmap ledger is judged after every call and at every scope exit; plus the cycles family: 200 to 100000 create/install/drop cycles in one process (1-6 installs per cycle over 8 targets with repetition, refused installs, 1 in 7 cycles ending by panic), ledger judged per cycle and executable anonymous mappings compared before the first / every 4096 / after the last cycle; distinct = class tuples",
        "assumptions": [A_S, A_N],
        "parts": [s_part("S-histories", "C12", "x86_64_linux,aarch64_linux", 24000, 2400000),
                  s_part("S-histories-windows-macos", "C12", "x86_64_windows,aarch64_windows,aarch64_macos,x86_64_macos", 8000, 160000, selftest=40),
                  n_part("N-histories", "C12", 480, 48000),
                  n_part("N-cycles", "C12", 16, 128, selftest=4, extra_args=["--family", "cycles"])],
    },
    "C15": {
        "level": "fault_enumeration",
        "rule": "A64: scenario index drives a sweep of fake addresses (32 installs per sweep scenario; 32768 scenarios cover every 16-bit chunk value in each of the 4 positions, quick covers the first 12000), interleaved with seeded 64-bit fakes, displacement steering through a one-free-page neighbourhood at both window edges, and a buggified kernel; the same on the aarch64 Windows and macOS variants (macOS: ADRP/ADD/BR entry form beyond +/-128 MiB through the public path up to +/-2 GiB); direct sub-check of the macOS long-jump emitter on seeded (pc, target) pairs within +/-4 GiB incl. the B/ADRP range edges and page-offset carries (64 pairs per scenario); direct sub-check of the Linux/Windows entry-branch writer on (function, trampoline) pairs with word-aligned displacements across and beyond +/-128 MiB (in range: decodes to B to exactly the trampoline; beyond: refused with the entry untouched); distinct = (mode, chunk position, offset class, layout, policy) tuples / distinct (pc, target) pairs",
        "assumptions": [A_S],
        "parts": [s_part("S-a64-encodings", "C15", "aarch64_linux", 12000, 1048576),
                  s_part("S-a64-windows-macos", "C15", "aarch64_windows,aarch64_macos", 1200, 60000, selftest=60),
                  s_part("S-macos-long-jump-direct", "C15L", "aarch64_macos", 4000, 400000, selftest=200),
                  s_part("S-entry-branch-direct", "C15B", "aarch64_linux", 4000, 400000, selftest=200)],
    },
    "C16": {
        "level": "fault_enumeration",
        "rule": "A32/T32: 4-15 installs per scenario on 1-3 targets in the three entry cases (A32; T32 0 mod 4; T32 2 mod 4), fakes over the 32-bit space in both instruction-set states; distinct = class tuples",
        "assumptions": [A_S],
        "parts": [s_part("S-arm-encodings", "C16", "arm_linux", 120000, 12000000)],
    },
    "C17": {
        "level": "fault_enumeration",
        "rule": "as C02; every write to code must be covered by a later icache flush before the API call returns; distinct = class tuples",
        "assumptions": [A_S, A_N],
        "parts": [s_part("S-histories", "C17", LINUX3, 24000, 2400000),
                  s_part("S-histories-windows-macos", "C17", "x86_64_windows,aarch64_windows,aarch64_macos,x86_64_macos", 800, 40000, selftest=40),
                  n_part("N-histories", "C17", 480, 48000)],
    },
}
