//! simsched — deterministic thread scheduler (DESIGN 2.4).
//!
//! Real OS threads, exactly one of which holds the baton.  Every operation on a `sync::Mutex`
//! (lock attempt, blocked, unlock) or atomic, every spawn, join and explicit yield is a
//! scheduling point at which the seeded scheduler chooses the next runnable thread.  Outside a
//! simulation (threads not created through `simsched`) the types behave like std's.
//!
//! Panics are a normal event here: a `MutexGuard` dropped while unwinding poisons the real inner
//! `std::sync::Mutex` exactly as std does, `std::thread::panicking()` is the real per-thread flag,
//! and a panicking simulated thread simply finishes.

use std::cell::Cell;
use std::collections::BTreeMap;
use std::sync::{Condvar, Mutex as StdMutex};

#[derive(Clone, Copy, PartialEq, Eq, Debug)]
pub enum Strategy {
    /// uniform choice among runnable threads at every point
    Random,
    /// keep running the current thread, preempt with probability 1/`den`
    Sticky { den: u32 },
    /// PCT-style: fixed random priorities, `d` priority-change points at random steps
    Pct { d: u32 },
}

#[derive(Clone, Debug)]
pub struct Config {
    pub seed: u64,
    pub strategy: Strategy,
    pub max_steps: u64,
    /// replay: decisions to take (thread ids) at points with more than one runnable thread
    pub forced: Option<Vec<u16>>,
}

#[derive(Clone, Debug, Default)]
pub struct Report {
    pub steps: u64,
    pub choice_points: u64,
    pub preemptions: u64,
    pub schedule: Vec<u16>,
    pub trace_hash: u64,
    pub deadlock: Option<String>,
    pub step_overrun: bool,
    pub threads: usize,
    pub lock_handovers: u64,
    pub blocked_on_lock: u64,
    pub poisoned_acquisitions: u64,
}

#[derive(Clone, Copy, PartialEq, Eq, Debug)]
enum Status {
    Runnable,
    BlockedMutex(usize),
    BlockedJoin(usize),
    BlockedCondvar(usize),
    Finished,
}

struct State {
    cfg: Config,
    current: usize,
    threads: Vec<Status>,
    prio: Vec<u64>,
    change_points: Vec<u64>,
    owner: BTreeMap<usize, usize>,
    rng: u64,
    rep: Report,
    done: bool,
    forced_pos: usize,
}

static SCHED: StdMutex<Option<State>> = StdMutex::new(None);
static CV: Condvar = Condvar::new();
/// called (in the simulated process) when the simulation cannot continue: deadlock / overrun
static FATAL: StdMutex<Option<Box<dyn Fn(&Report) + Send>>> = StdMutex::new(None);

thread_local! {
    static MY_ID: Cell<Option<usize>> = const { Cell::new(None) };
}

fn splitmix(s: &mut u64) -> u64 {
    *s = s.wrapping_add(0x9E37_79B9_7F4A_7C15);
    let mut z = *s;
    z = (z ^ (z >> 30)).wrapping_mul(0xBF58_476D_1CE4_E5B9);
    z = (z ^ (z >> 27)).wrapping_mul(0x94D0_49BB_1331_11EB);
    z ^ (z >> 31)
}

pub fn in_simulation() -> bool {
    MY_ID.with(|m| m.get().is_some())
}
pub fn current_thread() -> Option<usize> {
    MY_ID.with(|m| m.get())
}

fn lock_state() -> std::sync::MutexGuard<'static, Option<State>> {
    match SCHED.lock() {
        Ok(g) => g,
        Err(p) => p.into_inner(),
    }
}

impl State {
    fn below(&mut self, n: u64) -> u64 {
        ((splitmix(&mut self.rng) as u128 * n as u128) >> 64) as u64
    }

    fn runnable(&self) -> Vec<usize> {
        self.threads.iter().enumerate().filter(|(_, s)| **s == Status::Runnable).map(|(i, _)| i).collect()
    }

    /// choose who runs next; `me` may or may not be runnable
    fn choose(&mut self, me: usize, kind: u64) -> Option<usize> {
        self.rep.steps += 1;
        self.rep.trace_hash = {
            let mut s = self.rep.trace_hash ^ ((me as u64) << 8 | kind).wrapping_mul(0x9E37_79B9_7F4A_7C15);
            splitmix(&mut s)
        };
        let r = self.runnable();
        if r.is_empty() {
            return None;
        }
        if r.len() == 1 {
            return Some(r[0]);
        }
        self.rep.choice_points += 1;
        let pick = if let Some(f) = &self.cfg.forced {
            let want = f.get(self.forced_pos).copied();
            self.forced_pos += 1;
            match want {
                Some(w) if r.contains(&(w as usize)) => w as usize,
                _ => {
                    if r.contains(&me) {
                        me
                    } else {
                        r[0]
                    }
                }
            }
        } else {
            match self.cfg.strategy {
                Strategy::Random => r[self.below(r.len() as u64) as usize],
                Strategy::Sticky { den } => {
                    if r.contains(&me) && self.below(den as u64) != 0 {
                        me
                    } else {
                        r[self.below(r.len() as u64) as usize]
                    }
                }
                Strategy::Pct { .. } => {
                    if self.change_points.contains(&self.rep.steps) {
                        // lower the priority of the running thread below everything else
                        let low = self.prio.iter().copied().min().unwrap_or(1).saturating_sub(1);
                        if me < self.prio.len() {
                            self.prio[me] = low;
                        }
                    }
                    *r.iter().max_by_key(|t| self.prio[**t]).unwrap()
                }
            }
        };
        if pick != me && r.contains(&me) {
            self.rep.preemptions += 1;
        }
        if self.rep.schedule.len() < 100_000 {
            self.rep.schedule.push(pick as u16);
        }
        Some(pick)
    }
}

fn fatal(mut g: std::sync::MutexGuard<'static, Option<State>>, what: String, overrun: bool) -> ! {
    let rep = {
        let st = g.as_mut().unwrap();
        if overrun {
            st.rep.step_overrun = true;
        } else {
            st.rep.deadlock = Some(what);
        }
        st.rep.threads = st.threads.len();
        st.rep.clone()
    };
    drop(g);
    let f = FATAL.lock().unwrap_or_else(|p| p.into_inner());
    if let Some(f) = f.as_ref() {
        f(&rep);
    }
    // the simulation cannot continue and its threads cannot be unwound: leave the process
    unsafe { libc_exit(3) }
}

extern "C" {
    fn _exit(code: i32) -> !;
}
unsafe fn libc_exit(c: i32) -> ! {
    _exit(c)
}

/// A scheduling point of kind `kind` for the calling simulated thread (still runnable).
pub fn point(kind: u64) {
    let me = match current_thread() {
        Some(m) => m,
        None => return,
    };
    let mut g = lock_state();
    let st = match g.as_mut() {
        Some(s) => s,
        None => return,
    };
    if st.rep.steps >= st.cfg.max_steps {
        fatal(g, String::new(), true);
    }
    let next = st.choose(me, kind).unwrap_or(me);
    st.current = next;
    if next != me {
        CV.notify_all();
        while g.as_ref().map(|s| s.current != me).unwrap_or(false) {
            g = match CV.wait(g) {
                Ok(x) => x,
                Err(p) => p.into_inner(),
            };
        }
    }
}

/// Block the calling thread with `status`; returns when it has been made runnable and chosen.
fn block(status: Status, kind: u64) {
    block_after(status, kind, |_| {})
}

/// As `block`, but `pre` edits the scheduler state in the same critical section (a condition
/// variable releases its mutex and starts waiting atomically).
fn block_after(status: Status, kind: u64, pre: impl FnOnce(&mut State)) {
    let me = current_thread().expect("block outside simulation");
    let mut g = lock_state();
    {
        let st = g.as_mut().unwrap();
        pre(st);
        st.threads[me] = status;
        match st.choose(me, kind) {
            Some(next) => {
                st.current = next;
            }
            None => {
                let desc = format!("no runnable thread: statuses {:?}, mutex owners {:?}", st.threads, st.owner);
                fatal(g, desc, false);
            }
        }
    }
    CV.notify_all();
    while g.as_ref().map(|s| s.current != me || s.threads[me] != Status::Runnable).unwrap_or(false) {
        g = match CV.wait(g) {
            Ok(x) => x,
            Err(p) => p.into_inner(),
        };
    }
}

fn finish_thread(me: usize) {
    let mut g = lock_state();
    let st = g.as_mut().unwrap();
    st.threads[me] = Status::Finished;
    for s in st.threads.iter_mut() {
        if *s == Status::BlockedJoin(me) {
            *s = Status::Runnable;
        }
    }
    if st.threads.iter().all(|s| *s == Status::Finished) {
        st.done = true;
        st.rep.threads = st.threads.len();
        CV.notify_all();
        return;
    }
    match st.choose(me, 9) {
        Some(next) => {
            st.current = next;
            CV.notify_all();
        }
        None => {
            let desc = format!("thread {me} finished and nobody can run: statuses {:?}, mutex owners {:?}", st.threads, st.owner);
            fatal(g, desc, false);
        }
    }
}

/// Run one simulation: `main` becomes simulated thread 0.  `on_fatal` is invoked (in this
/// process) on deadlock or step overrun just before the process exits with status 3.
pub fn run<F: FnOnce() + Send + 'static>(cfg: Config, on_fatal: Box<dyn Fn(&Report) + Send>, main: F) -> Report {
    {
        let mut f = FATAL.lock().unwrap_or_else(|p| p.into_inner());
        *f = Some(on_fatal);
        let mut g = lock_state();
        let mut rng = cfg.seed ^ 0x5CED;
        let mut change_points = Vec::new();
        if let Strategy::Pct { d } = cfg.strategy {
            for _ in 0..d {
                change_points.push(1 + ((splitmix(&mut rng) as u128 * 400u128) >> 64) as u64);
            }
        }
        let p0 = splitmix(&mut rng) | 1 << 40;
        *g = Some(State {
            cfg,
            current: 0,
            threads: vec![Status::Runnable],
            prio: vec![p0],
            change_points,
            owner: BTreeMap::new(),
            rng,
            rep: Report::default(),
            done: false,
            forced_pos: 0,
        });
    }
    let h = std::thread::spawn(move || {
        MY_ID.with(|m| m.set(Some(0)));
        let _ = std::panic::catch_unwind(std::panic::AssertUnwindSafe(main));
        finish_thread(0);
    });
    let _ = h.join();
    let mut g = lock_state();
    while !g.as_ref().map(|s| s.done).unwrap_or(true) {
        g = match CV.wait(g) {
            Ok(x) => x,
            Err(p) => p.into_inner(),
        };
    }
    let st = g.take().unwrap();
    st.rep
}

pub mod thread {
    use super::*;

    pub struct JoinHandle<T> {
        tid: usize,
        inner: std::thread::JoinHandle<std::thread::Result<T>>,
    }

    pub fn spawn<F, T>(f: F) -> JoinHandle<T>
    where
        F: FnOnce() -> T + Send + 'static,
        T: Send + 'static,
    {
        assert!(in_simulation(), "simsched::thread::spawn outside a simulation");
        let tid = {
            let mut g = lock_state();
            let st = g.as_mut().unwrap();
            st.threads.push(Status::Runnable);
            let p = splitmix(&mut st.rng) | 1 << 40;
            st.prio.push(p);
            st.threads.len() - 1
        };
        let inner = std::thread::spawn(move || {
            MY_ID.with(|m| m.set(Some(tid)));
            // wait for the baton
            {
                let mut g = lock_state();
                while g.as_ref().map(|s| s.current != tid).unwrap_or(false) {
                    g = match CV.wait(g) {
                        Ok(x) => x,
                        Err(p) => p.into_inner(),
                    };
                }
            }
            let r = std::panic::catch_unwind(std::panic::AssertUnwindSafe(f));
            finish_thread(tid);
            r
        });
        point(7);
        JoinHandle { tid, inner }
    }

    impl<T> JoinHandle<T> {
        pub fn join(self) -> std::thread::Result<T> {
            loop {
                let finished = {
                    let g = lock_state();
                    g.as_ref().map(|s| s.threads[self.tid] == Status::Finished).unwrap_or(true)
                };
                if finished {
                    break;
                }
                block(Status::BlockedJoin(self.tid), 8);
            }
            match self.inner.join() {
                Ok(r) => r,
                Err(e) => Err(e),
            }
        }
    }

    pub fn yield_now() {
        point(6);
    }
}

pub mod sync {
    use super::*;
    pub use std::sync::{mpsc, Arc, Barrier, LazyLock, LockResult, Once, PoisonError, TryLockError, TryLockResult, Weak};

    static NEXT_MUTEX_ID: std::sync::atomic::AtomicUsize = std::sync::atomic::AtomicUsize::new(1);

    pub struct Mutex<T> {
        inner: std::sync::Mutex<T>,
        id: std::sync::atomic::AtomicUsize,
    }

    pub struct MutexGuard<'a, T> {
        inner: Option<std::sync::MutexGuard<'a, T>>,
        mutex: &'a Mutex<T>,
        simulated: bool,
    }

    impl<T> Mutex<T> {
        pub const fn new(value: T) -> Self {
            Mutex { inner: std::sync::Mutex::new(value), id: std::sync::atomic::AtomicUsize::new(0) }
        }

        fn id(&self) -> usize {
            let cur = self.id.load(std::sync::atomic::Ordering::SeqCst);
            if cur != 0 {
                return cur;
            }
            let n = NEXT_MUTEX_ID.fetch_add(1, std::sync::atomic::Ordering::SeqCst);
            match self.id.compare_exchange(0, n, std::sync::atomic::Ordering::SeqCst, std::sync::atomic::Ordering::SeqCst) {
                Ok(_) => n,
                Err(v) => v,
            }
        }

        pub fn lock(&self) -> LockResult<MutexGuard<'_, T>> {
            if !in_simulation() {
                return match self.inner.lock() {
                    Ok(g) => Ok(MutexGuard { inner: Some(g), mutex: self, simulated: false }),
                    Err(p) => Err(PoisonError::new(MutexGuard { inner: Some(p.into_inner()), mutex: self, simulated: false })),
                };
            }
            let me = current_thread().unwrap();
            let id = self.id();
            let mut waited = false;
            loop {
                point(1); // lock attempt
                let got = {
                    let mut g = lock_state();
                    let st = g.as_mut().unwrap();
                    if st.owner.contains_key(&id) {
                        false
                    } else {
                        st.owner.insert(id, me);
                        if waited {
                            st.rep.lock_handovers += 1;
                        }
                        true
                    }
                };
                if got {
                    break;
                }
                waited = true;
                {
                    let mut g = lock_state();
                    g.as_mut().unwrap().rep.blocked_on_lock += 1;
                }
                block(Status::BlockedMutex(id), 2);
            }
            // scheduler-level ownership is exclusive, so the real lock is uncontended
            match self.inner.lock() {
                Ok(g) => Ok(MutexGuard { inner: Some(g), mutex: self, simulated: true }),
                Err(p) => {
                    {
                        let mut g = lock_state();
                        if let Some(st) = g.as_mut() {
                            st.rep.poisoned_acquisitions += 1;
                        }
                    }
                    Err(PoisonError::new(MutexGuard { inner: Some(p.into_inner()), mutex: self, simulated: true }))
                }
            }
        }

        pub fn is_poisoned(&self) -> bool {
            self.inner.is_poisoned()
        }

        pub fn clear_poison(&self) {
            self.inner.clear_poison()
        }

        pub fn try_lock(&self) -> std::sync::TryLockResult<MutexGuard<'_, T>> {
            if !in_simulation() {
                return match self.inner.try_lock() {
                    Ok(g) => Ok(MutexGuard { inner: Some(g), mutex: self, simulated: false }),
                    Err(std::sync::TryLockError::Poisoned(p)) => Err(std::sync::TryLockError::Poisoned(PoisonError::new(MutexGuard { inner: Some(p.into_inner()), mutex: self, simulated: false }))),
                    Err(std::sync::TryLockError::WouldBlock) => Err(std::sync::TryLockError::WouldBlock),
                };
            }
            let me = current_thread().unwrap();
            let id = self.id();
            point(1);
            let got = {
                let mut g = lock_state();
                let st = g.as_mut().unwrap();
                if st.owner.contains_key(&id) {
                    false
                } else {
                    st.owner.insert(id, me);
                    true
                }
            };
            if !got {
                return Err(std::sync::TryLockError::WouldBlock);
            }
            match self.inner.lock() {
                Ok(g) => Ok(MutexGuard { inner: Some(g), mutex: self, simulated: true }),
                Err(p) => Err(std::sync::TryLockError::Poisoned(PoisonError::new(MutexGuard { inner: Some(p.into_inner()), mutex: self, simulated: true }))),
            }
        }

        pub fn get_mut(&mut self) -> LockResult<&mut T> {
            self.inner.get_mut()
        }

        pub fn into_inner(self) -> LockResult<T> {
            self.inner.into_inner()
        }
    }

    impl<T: Default> Default for Mutex<T> {
        fn default() -> Self {
            Mutex::new(T::default())
        }
    }

    impl<T> std::fmt::Debug for Mutex<T> {
        fn fmt(&self, f: &mut std::fmt::Formatter<'_>) -> std::fmt::Result {
            f.write_str("simsched::Mutex")
        }
    }
    impl<T> std::fmt::Debug for MutexGuard<'_, T> {
        fn fmt(&self, f: &mut std::fmt::Formatter<'_>) -> std::fmt::Result {
            f.write_str("simsched::MutexGuard")
        }
    }

    impl<T> Drop for MutexGuard<'_, T> {
        fn drop(&mut self) {
            // real unlock first: poisons iff this thread is panicking, exactly like std
            self.inner.take();
            if !self.simulated || !in_simulation() {
                return;
            }
            let id = self.mutex.id();
            {
                let mut g = lock_state();
                if let Some(st) = g.as_mut() {
                    st.owner.remove(&id);
                    for s in st.threads.iter_mut() {
                        if *s == Status::BlockedMutex(id) {
                            *s = Status::Runnable;
                        }
                    }
                }
            }
            point(3); // unlock
        }
    }

    impl<T> std::ops::Deref for MutexGuard<'_, T> {
        type Target = T;
        fn deref(&self) -> &T {
            self.inner.as_ref().unwrap()
        }
    }
    impl<T> std::ops::DerefMut for MutexGuard<'_, T> {
        fn deref_mut(&mut self) -> &mut T {
            self.inner.as_mut().unwrap()
        }
    }

    /// `std::sync::OnceLock` whose reads and initialisations are scheduling points: "looked empty,
    /// then somebody else filled it" is an interleaving the scheduler can choose.  The closure of
    /// `get_or_init` still runs at most once, as in std.
    pub struct OnceLock<T> {
        inner: std::sync::OnceLock<T>,
    }
    impl<T> OnceLock<T> {
        pub const fn new() -> Self {
            OnceLock { inner: std::sync::OnceLock::new() }
        }
        pub fn get(&self) -> Option<&T> {
            point(4);
            self.inner.get()
        }
        pub fn get_mut(&mut self) -> Option<&mut T> {
            self.inner.get_mut()
        }
        pub fn set(&self, value: T) -> Result<(), T> {
            point(5);
            self.inner.set(value)
        }
        pub fn get_or_init<F: FnOnce() -> T>(&self, f: F) -> &T {
            point(5);
            self.inner.get_or_init(f)
        }
        pub fn into_inner(self) -> Option<T> {
            self.inner.into_inner()
        }
        pub fn take(&mut self) -> Option<T> {
            self.inner.take()
        }
    }
    impl<T> Default for OnceLock<T> {
        fn default() -> Self {
            OnceLock::new()
        }
    }
    impl<T: std::fmt::Debug> std::fmt::Debug for OnceLock<T> {
        fn fmt(&self, f: &mut std::fmt::Formatter<'_>) -> std::fmt::Result {
            write!(f, "{:?}", self.inner)
        }
    }

    /// Condition variable with the std API (no timeouts).  Releasing the mutex and starting to
    /// wait is one scheduler step, so no wake-up is lost; `notify_one` wakes the waiting thread
    /// with the lowest index; there are no spurious wake-ups.
    pub struct Condvar {
        id: std::sync::atomic::AtomicUsize,
        real: std::sync::Condvar,
    }
    impl Condvar {
        pub const fn new() -> Self {
            Condvar { id: std::sync::atomic::AtomicUsize::new(0), real: std::sync::Condvar::new() }
        }
        fn id(&self) -> usize {
            let cur = self.id.load(std::sync::atomic::Ordering::SeqCst);
            if cur != 0 {
                return cur;
            }
            let n = NEXT_MUTEX_ID.fetch_add(1, std::sync::atomic::Ordering::SeqCst);
            match self.id.compare_exchange(0, n, std::sync::atomic::Ordering::SeqCst, std::sync::atomic::Ordering::SeqCst) {
                Ok(_) => n,
                Err(v) => v,
            }
        }
        pub fn wait<'a, T>(&self, mut guard: MutexGuard<'a, T>) -> LockResult<MutexGuard<'a, T>> {
            if !guard.simulated || !in_simulation() {
                let inner = guard.inner.take().unwrap();
                return match self.real.wait(inner) {
                    Ok(g) => {
                        guard.inner = Some(g);
                        Ok(guard)
                    }
                    Err(p) => {
                        guard.inner = Some(p.into_inner());
                        Err(PoisonError::new(guard))
                    }
                };
            }
            let mutex = guard.mutex;
            let mid = mutex.id();
            let cid = self.id();
            // real unlock first (poisons iff panicking, like std), and keep the guard's Drop from
            // releasing the scheduler-level ownership a second time
            guard.inner.take();
            guard.simulated = false;
            drop(guard);
            block_after(Status::BlockedCondvar(cid), 6, |st| {
                st.owner.remove(&mid);
                for s in st.threads.iter_mut() {
                    if *s == Status::BlockedMutex(mid) {
                        *s = Status::Runnable;
                    }
                }
            });
            mutex.lock()
        }
        pub fn wait_while<'a, T, F: FnMut(&mut T) -> bool>(&self, mut guard: MutexGuard<'a, T>, mut condition: F) -> LockResult<MutexGuard<'a, T>> {
            while condition(&mut *guard) {
                guard = self.wait(guard)?;
            }
            Ok(guard)
        }
        fn wake(&self, all: bool) {
            if !in_simulation() {
                if all {
                    self.real.notify_all()
                } else {
                    self.real.notify_one()
                }
                return;
            }
            let cid = self.id();
            {
                let mut g = lock_state();
                if let Some(st) = g.as_mut() {
                    for s in st.threads.iter_mut() {
                        if *s == Status::BlockedCondvar(cid) {
                            *s = Status::Runnable;
                            if !all {
                                break;
                            }
                        }
                    }
                }
            }
            point(7);
        }
        pub fn notify_one(&self) {
            self.wake(false)
        }
        pub fn notify_all(&self) {
            self.wake(true)
        }
    }
    impl Default for Condvar {
        fn default() -> Self {
            Condvar::new()
        }
    }
    impl std::fmt::Debug for Condvar {
        fn fmt(&self, f: &mut std::fmt::Formatter<'_>) -> std::fmt::Result {
            f.write_str("simsched::Condvar")
        }
    }

    /// Reader-writer lock with the std API.  Scheduler-level ownership is EXCLUSIVE for readers
    /// too (a conservative model: every interleaving it allows is allowed by std's lock; two
    /// simultaneous readers are not explored).
    pub struct RwLock<T> {
        m: Mutex<()>,
        inner: std::sync::RwLock<T>,
    }
    pub struct RwLockReadGuard<'a, T> {
        inner: Option<std::sync::RwLockReadGuard<'a, T>>,
        _own: Option<MutexGuard<'a, ()>>,
    }
    pub struct RwLockWriteGuard<'a, T> {
        inner: Option<std::sync::RwLockWriteGuard<'a, T>>,
        _own: Option<MutexGuard<'a, ()>>,
    }
    impl<T> RwLock<T> {
        pub const fn new(value: T) -> Self {
            RwLock { m: Mutex::new(()), inner: std::sync::RwLock::new(value) }
        }
        fn own(&self) -> MutexGuard<'_, ()> {
            match self.m.lock() {
                Ok(g) => g,
                Err(p) => p.into_inner(),
            }
        }
        pub fn read(&self) -> LockResult<RwLockReadGuard<'_, T>> {
            let own = self.own();
            match self.inner.read() {
                Ok(g) => Ok(RwLockReadGuard { inner: Some(g), _own: Some(own) }),
                Err(p) => Err(PoisonError::new(RwLockReadGuard { inner: Some(p.into_inner()), _own: Some(own) })),
            }
        }
        pub fn write(&self) -> LockResult<RwLockWriteGuard<'_, T>> {
            let own = self.own();
            match self.inner.write() {
                Ok(g) => Ok(RwLockWriteGuard { inner: Some(g), _own: Some(own) }),
                Err(p) => Err(PoisonError::new(RwLockWriteGuard { inner: Some(p.into_inner()), _own: Some(own) })),
            }
        }
        pub fn is_poisoned(&self) -> bool {
            self.inner.is_poisoned()
        }
        pub fn clear_poison(&self) {
            self.inner.clear_poison()
        }
        pub fn get_mut(&mut self) -> LockResult<&mut T> {
            self.inner.get_mut()
        }
        pub fn into_inner(self) -> LockResult<T> {
            self.inner.into_inner()
        }
    }
    impl<T: Default> Default for RwLock<T> {
        fn default() -> Self {
            RwLock::new(T::default())
        }
    }
    impl<T> std::fmt::Debug for RwLock<T> {
        fn fmt(&self, f: &mut std::fmt::Formatter<'_>) -> std::fmt::Result {
            f.write_str("simsched::RwLock")
        }
    }
    impl<T> Drop for RwLockReadGuard<'_, T> {
        fn drop(&mut self) {
            // the std guard first (poisoning semantics are std's), then scheduler-level ownership
            self.inner.take();
            self._own.take();
        }
    }
    impl<T> Drop for RwLockWriteGuard<'_, T> {
        fn drop(&mut self) {
            self.inner.take();
            self._own.take();
        }
    }
    impl<T> std::ops::Deref for RwLockReadGuard<'_, T> {
        type Target = T;
        fn deref(&self) -> &T {
            self.inner.as_ref().unwrap()
        }
    }
    impl<T> std::ops::Deref for RwLockWriteGuard<'_, T> {
        type Target = T;
        fn deref(&self) -> &T {
            self.inner.as_ref().unwrap()
        }
    }
    impl<T> std::ops::DerefMut for RwLockWriteGuard<'_, T> {
        fn deref_mut(&mut self) -> &mut T {
            self.inner.as_mut().unwrap()
        }
    }
    impl<T> std::fmt::Debug for RwLockReadGuard<'_, T> {
        fn fmt(&self, f: &mut std::fmt::Formatter<'_>) -> std::fmt::Result {
            f.write_str("simsched::RwLockReadGuard")
        }
    }
    impl<T> std::fmt::Debug for RwLockWriteGuard<'_, T> {
        fn fmt(&self, f: &mut std::fmt::Formatter<'_>) -> std::fmt::Result {
            f.write_str("simsched::RwLockWriteGuard")
        }
    }

    pub mod atomic {
        pub use std::sync::atomic::Ordering;

        pub fn fence(o: Ordering) {
            crate::point(5);
            std::sync::atomic::fence(o)
        }
        pub fn compiler_fence(o: Ordering) {
            std::sync::atomic::compiler_fence(o)
        }

        /// Sequentially consistent by construction: one thread runs at a time and every
        /// operation is a scheduling point (a `fetch_update` is one per attempt).
        macro_rules! sim_atomic_int {
            ($name:ident, $t:ty) => {
                pub struct $name {
                    v: std::sync::atomic::$name,
                }
                impl $name {
                    pub const fn new(v: $t) -> Self {
                        $name { v: std::sync::atomic::$name::new(v) }
                    }
                    pub fn load(&self, o: Ordering) -> $t {
                        crate::point(4);
                        self.v.load(o)
                    }
                    pub fn store(&self, x: $t, o: Ordering) {
                        crate::point(5);
                        self.v.store(x, o)
                    }
                    pub fn swap(&self, x: $t, o: Ordering) -> $t {
                        crate::point(5);
                        self.v.swap(x, o)
                    }
                    pub fn compare_exchange(&self, cur: $t, new: $t, s: Ordering, f: Ordering) -> Result<$t, $t> {
                        crate::point(5);
                        self.v.compare_exchange(cur, new, s, f)
                    }
                    pub fn compare_exchange_weak(&self, cur: $t, new: $t, s: Ordering, f: Ordering) -> Result<$t, $t> {
                        crate::point(5);
                        self.v.compare_exchange(cur, new, s, f)
                    }
                    pub fn fetch_add(&self, x: $t, o: Ordering) -> $t {
                        crate::point(5);
                        self.v.fetch_add(x, o)
                    }
                    pub fn fetch_sub(&self, x: $t, o: Ordering) -> $t {
                        crate::point(5);
                        self.v.fetch_sub(x, o)
                    }
                    pub fn fetch_and(&self, x: $t, o: Ordering) -> $t {
                        crate::point(5);
                        self.v.fetch_and(x, o)
                    }
                    pub fn fetch_or(&self, x: $t, o: Ordering) -> $t {
                        crate::point(5);
                        self.v.fetch_or(x, o)
                    }
                    pub fn fetch_xor(&self, x: $t, o: Ordering) -> $t {
                        crate::point(5);
                        self.v.fetch_xor(x, o)
                    }
                    pub fn fetch_nand(&self, x: $t, o: Ordering) -> $t {
                        crate::point(5);
                        self.v.fetch_nand(x, o)
                    }
                    pub fn fetch_max(&self, x: $t, o: Ordering) -> $t {
                        crate::point(5);
                        self.v.fetch_max(x, o)
                    }
                    pub fn fetch_min(&self, x: $t, o: Ordering) -> $t {
                        crate::point(5);
                        self.v.fetch_min(x, o)
                    }
                    pub fn fetch_update<F: FnMut($t) -> Option<$t>>(&self, s: Ordering, f: Ordering, mut g: F) -> Result<$t, $t> {
                        // load and compare-exchange are separate scheduling points, as on hardware
                        let mut prev = self.load(f);
                        while let Some(next) = g(prev) {
                            match self.compare_exchange_weak(prev, next, s, f) {
                                x @ Ok(_) => return x,
                                Err(now) => prev = now,
                            }
                        }
                        Err(prev)
                    }
                    pub fn get_mut(&mut self) -> &mut $t {
                        self.v.get_mut()
                    }
                    pub fn into_inner(self) -> $t {
                        self.v.into_inner()
                    }
                    pub fn as_ptr(&self) -> *mut $t {
                        self.v.as_ptr()
                    }
                }
                impl Default for $name {
                    fn default() -> Self {
                        $name::new(0)
                    }
                }
                impl From<$t> for $name {
                    fn from(v: $t) -> Self {
                        $name::new(v)
                    }
                }
                impl std::fmt::Debug for $name {
                    fn fmt(&self, f: &mut std::fmt::Formatter<'_>) -> std::fmt::Result {
                        // no scheduling point in formatting paths
                        write!(f, "{:?}", self.v)
                    }
                }
            };
        }
        sim_atomic_int!(AtomicUsize, usize);
        sim_atomic_int!(AtomicIsize, isize);
        sim_atomic_int!(AtomicU8, u8);
        sim_atomic_int!(AtomicU16, u16);
        sim_atomic_int!(AtomicU32, u32);
        sim_atomic_int!(AtomicU64, u64);
        sim_atomic_int!(AtomicI8, i8);
        sim_atomic_int!(AtomicI16, i16);
        sim_atomic_int!(AtomicI32, i32);
        sim_atomic_int!(AtomicI64, i64);

        pub struct AtomicBool {
            v: std::sync::atomic::AtomicBool,
        }
        impl AtomicBool {
            pub const fn new(v: bool) -> Self {
                AtomicBool { v: std::sync::atomic::AtomicBool::new(v) }
            }
            pub fn load(&self, o: Ordering) -> bool {
                crate::point(4);
                self.v.load(o)
            }
            pub fn store(&self, x: bool, o: Ordering) {
                crate::point(5);
                self.v.store(x, o)
            }
            pub fn swap(&self, x: bool, o: Ordering) -> bool {
                crate::point(5);
                self.v.swap(x, o)
            }
            pub fn compare_exchange(&self, cur: bool, new: bool, s: Ordering, f: Ordering) -> Result<bool, bool> {
                crate::point(5);
                self.v.compare_exchange(cur, new, s, f)
            }
            pub fn compare_exchange_weak(&self, cur: bool, new: bool, s: Ordering, f: Ordering) -> Result<bool, bool> {
                crate::point(5);
                self.v.compare_exchange(cur, new, s, f)
            }
            pub fn fetch_and(&self, x: bool, o: Ordering) -> bool {
                crate::point(5);
                self.v.fetch_and(x, o)
            }
            pub fn fetch_or(&self, x: bool, o: Ordering) -> bool {
                crate::point(5);
                self.v.fetch_or(x, o)
            }
            pub fn fetch_xor(&self, x: bool, o: Ordering) -> bool {
                crate::point(5);
                self.v.fetch_xor(x, o)
            }
            pub fn fetch_nand(&self, x: bool, o: Ordering) -> bool {
                crate::point(5);
                self.v.fetch_nand(x, o)
            }
            pub fn fetch_update<F: FnMut(bool) -> Option<bool>>(&self, s: Ordering, f: Ordering, mut g: F) -> Result<bool, bool> {
                let mut prev = self.load(f);
                while let Some(next) = g(prev) {
                    match self.compare_exchange_weak(prev, next, s, f) {
                        x @ Ok(_) => return x,
                        Err(now) => prev = now,
                    }
                }
                Err(prev)
            }
            pub fn get_mut(&mut self) -> &mut bool {
                self.v.get_mut()
            }
            pub fn into_inner(self) -> bool {
                self.v.into_inner()
            }
        }
        impl Default for AtomicBool {
            fn default() -> Self {
                AtomicBool::new(false)
            }
        }
        impl std::fmt::Debug for AtomicBool {
            fn fmt(&self, f: &mut std::fmt::Formatter<'_>) -> std::fmt::Result {
                write!(f, "{:?}", self.v)
            }
        }

        pub struct AtomicPtr<T> {
            v: std::sync::atomic::AtomicPtr<T>,
        }
        impl<T> AtomicPtr<T> {
            pub const fn new(p: *mut T) -> Self {
                AtomicPtr { v: std::sync::atomic::AtomicPtr::new(p) }
            }
            pub fn load(&self, o: Ordering) -> *mut T {
                crate::point(4);
                self.v.load(o)
            }
            pub fn store(&self, x: *mut T, o: Ordering) {
                crate::point(5);
                self.v.store(x, o)
            }
            pub fn swap(&self, x: *mut T, o: Ordering) -> *mut T {
                crate::point(5);
                self.v.swap(x, o)
            }
            pub fn compare_exchange(&self, cur: *mut T, new: *mut T, s: Ordering, f: Ordering) -> Result<*mut T, *mut T> {
                crate::point(5);
                self.v.compare_exchange(cur, new, s, f)
            }
            pub fn compare_exchange_weak(&self, cur: *mut T, new: *mut T, s: Ordering, f: Ordering) -> Result<*mut T, *mut T> {
                crate::point(5);
                self.v.compare_exchange(cur, new, s, f)
            }
        }
    }
}
