#!/usr/bin/env python3
"""Transplant generator (DESIGN 2.1b).

Copies /repo/src/** from the *current working tree* into gen-out/ipp_<variant>/src applying a
small fixed rewrite table, so that every variant (arch x os) of the injector compiles on the
x86-64 Linux host against the simulated OS (`simos`) or the scheduler-owned sync primitives
(`simsched`).  Nothing in /repo is modified.

Exit status: 0 ok; 2 = harness error (a rewrite anchor disappeared) with a HARNESS-ERROR line.
Files are rewritten only when their content changes (keeps cargo fingerprints stable).
"""
import os
import re
import sys

REPO = os.environ.get("VERIF_REPO", "/repo")
HERE = os.path.dirname(os.path.abspath(__file__))
OUT = os.path.join(os.path.dirname(HERE), "gen-out")

# name -> (arch, os, kind)
VARIANTS = {
    "x86_64_linux": ("x86_64", "linux", "sim"),
    "aarch64_linux": ("aarch64", "linux", "sim"),
    "arm_linux": ("arm", "linux", "sim"),
    "aarch64_macos": ("aarch64", "macos", "sim"),
    "x86_64_macos": ("x86_64", "macos", "sim"),
    "x86_64_windows": ("x86_64", "windows", "sim"),
    "aarch64_windows": ("aarch64", "windows", "sim"),
    "sched": ("x86_64", "linux", "sched"),
}

SHIM_MODULES = {
    "linuxapi.rs": "pub(crate) use ::simos::linuxapi::*;\n",
    "macosapi.rs": "pub(crate) use ::simos::macosapi::*;\n",
    "winapi.rs": "pub(crate) use ::simos::winapi::*;\n",
}


def die(msg):
    print("HARNESS-ERROR generator: " + msg)
    sys.exit(2)


def fold_cfg(text, arch, osname):
    def arch_sub(m):
        return "all()" if m.group(1) == arch else "any()"

    def os_sub(m):
        return "all()" if m.group(1) == osname else "any()"

    text = re.sub(r'target_arch\s*=\s*"([a-z0-9_]+)"', arch_sub, text)
    text = re.sub(r'target_os\s*=\s*"([a-z0-9_]+)"', os_sub, text)
    return text


def strip_extern_blocks(text):
    """Remove `extern "C" { ... }` / `extern "system" { ... }` blocks (and a preceding #[link])."""
    out = []
    i = 0
    n = 0
    pat = re.compile(r'(?:#\[link[^\]]*\]\s*)?(?:unsafe\s+)?extern\s+"[A-Za-z-]+"\s*\{')
    while True:
        m = pat.search(text, i)
        if not m:
            out.append(text[i:])
            break
        out.append(text[i:m.start()])
        depth = 1
        j = m.end()
        while j < len(text) and depth > 0:
            if text[j] == "{":
                depth += 1
            elif text[j] == "}":
                depth -= 1
            j += 1
        i = j
        n += 1
    return "".join(out), n


def strip_doc(text):
    # doc comments may contain doctests / cfg-looking text; they are irrelevant to behaviour.
    out = []
    for line in text.split("\n"):
        s = line.lstrip()
        if s.startswith("//!") or s.startswith("///"):
            continue
        out.append(line)
    return "\n".join(out)


def rewrite_sim(rel, text, arch, osname, counts):
    text = strip_doc(text)
    text = fold_cfg(text, arch, osname)

    def cnt(key, n):
        counts[key] = counts.get(key, 0) + n

    # libc -> simos::libc
    text, n = re.subn(r'(?<![A-Za-z0-9_:])libc::', '::simos::libc::', text)
    cnt("libc", n)
    # pointer copies -> simos::ptr
    text, n = re.subn(r'(?<![A-Za-z0-9_:])use std::ptr;', 'use ::simos::ptr;', text)
    cnt("use_ptr", n)
    text, n = re.subn(r'(?<![A-Za-z0-9_:])(?:std|core)::ptr::', '::simos::ptr::', text)
    cnt("ptr_path", n)
    text, n = re.subn(r'(?<![A-Za-z0-9_:])(?:std|core)::slice::from_raw_parts', '::simos::slice_from_raw_parts', text)
    # method forms of raw-pointer accesses
    m = 0
    text, n = re.subn(r'\.read_(?:unaligned|volatile)\(\)', '.sim_read()', text)
    m += n
    text, n = re.subn(r'(as \*(?:const|mut) [A-Za-z0-9_:<>]+\))\.read\(\)', r'\1.sim_read()', text)
    m += n
    text, n = re.subn(r'(\.cast(?:::<[^\n{}]*?>)?\(\))\.read\(\)', r'\1.sim_read()', text)
    m += n
    text, n = re.subn(r'(\.cast(?:::<[^\n{}]*?>)?\(\))\.write\(', r'\1.sim_write(', text)
    m += n
    text, n = re.subn(r'\.write_(?:unaligned|volatile)\(', '.sim_write(', text)
    m += n
    if m:
        lines = text.split("\n")
        at = 0
        for i, l in enumerate(lines):
            if l.startswith("#![") or (i == at and (l.strip() == "" or l.startswith("//"))):
                at = i + 1
            else:
                break
        lines.insert(at, "#[allow(unused_imports)]\nuse ::simos::{SimPtrConst as _, SimPtrMut as _};")
        text = "\n".join(lines)
    cnt("ptr_methods", m)
    text, n = re.subn(r'(?<![A-Za-z0-9_:])core::arch::asm!\(', '::simos::sim_asm!(', text)
    cnt("asm", n)
    text, n = re.subn(r'(?<![A-Za-z0-9_:])std::arch::asm!\(', '::simos::sim_asm!(', text)
    cnt("asm", n)
    text, n = re.subn(r'(?<![A-Za-z0-9_:])mach2::', '::simos::mach2::', text)
    cnt("mach2", n)
    # procfs seam: /proc/self/maps and /proc/self/mem are views of the simulated address space
    text, n = re.subn(r'(?<![A-Za-z0-9_:])std::os::unix::fs::FileExt', '::simos::fs::FileExt', text)
    cnt("fs", n)
    text, n = re.subn(r'(?<![A-Za-z0-9_:])use std::fs;', 'use ::simos::fs;', text)
    cnt("fs", n)
    text, n = re.subn(r'(?<![A-Za-z0-9_:])std::fs::', '::simos::fs::', text)
    cnt("fs", n)
    return text


def rewrite_sched(rel, text, arch, osname, counts):
    text = strip_doc(text)
    text = fold_cfg(text, arch, osname)
    if rel.startswith("interface/") or rel == "interface.rs":
        text, n = re.subn(r'(?<![A-Za-z0-9_:])std::sync::', '::simsched::sync::', text)
        counts["sync"] = counts.get("sync", 0) + n
    return text


def write_if_changed(path, content):
    try:
        with open(path, "r") as f:
            if f.read() == content:
                return False
    except FileNotFoundError:
        pass
    os.makedirs(os.path.dirname(path), exist_ok=True)
    tmp = path + ".tmp%d" % os.getpid()
    with open(tmp, "w") as f:
        f.write(content)
    os.replace(tmp, path)
    return True


def generate(name):
    arch, osname, kind = VARIANTS[name]
    src_root = os.path.join(REPO, "src")
    if not os.path.isdir(src_root):
        die("no src directory at %s" % src_root)
    crate = "ipp_" + name
    out_root = os.path.join(OUT, crate)
    counts = {}
    wanted = set()
    for dirpath, _dirs, files in os.walk(src_root):
        for fn in sorted(files):
            if not fn.endswith(".rs"):
                continue
            full = os.path.join(dirpath, fn)
            rel = os.path.relpath(full, src_root)
            with open(full, "r") as f:
                text = f.read()
            if kind == "sim" and fn in SHIM_MODULES and rel.startswith("injector_core"):
                # the foreign functions come from the simulated OS; everything else the file
                # defines (constants, structs, helpers) is transplanted like any other source
                body, n_ext = strip_extern_blocks(text)
                if n_ext == 0:
                    die("%s: no extern block found in %s (OS seam anchor missing)" % (name, rel))
                body = rewrite_sim(rel, body, arch, osname, counts)
                inner = [l for l in body.split("\n") if l.startswith("#![")]
                rest = [l for l in body.split("\n") if not l.startswith("#![")]
                text = "\n".join(inner) + "\n#![allow(unused_imports)]\n" + SHIM_MODULES[fn] + "\n".join(rest) + "\n"
            elif kind == "sim":
                text = rewrite_sim(rel, text, arch, osname, counts)
            else:
                text = rewrite_sched(rel, text, arch, osname, counts)
            if rel == "lib.rs":
                text = "#![allow(warnings)]\n" + text
                if kind == "sim" and arch == "aarch64" and osname == "macos":
                    # optional direct seam for the macOS long-jump emitter (C15, +/-4 GiB pairs);
                    # if the function is renamed or its shape changes the sub-check is skipped
                    cg = os.path.join(src_root, "injector_core", "arm64_codegenerator.rs")
                    have = False
                    try:
                        have = re.search(r"fn\s+maybe_emit_long_jump\s*\(\s*pc\s*:\s*usize\s*,\s*target\s*:\s*usize\s*\)\s*->\s*Vec<u32>", open(cg).read()) is not None
                    except OSError:
                        pass
                    if have:
                        text += "\npub fn __verif_long_jump(pc: usize, target: usize) -> Option<Vec<u32>> { Some(crate::injector_core::arm64_codegenerator::maybe_emit_long_jump(pc, target)) }\n"
                    else:
                        text += "\npub fn __verif_long_jump(_pc: usize, _target: usize) -> Option<Vec<u32>> { None }\n"
            if kind == "sim" and arch == "aarch64" and osname != "macos":
                # optional direct seam for the entry-branch writer (C15: displacements across and
                # beyond +/-128 MiB are refused, not wrapped); skipped if its shape changes
                pa = os.path.join(src_root, "injector_core", "patch_arm64.rs")
                shape = r"\bfn\s+apply_branch_patch\s*\(\s*src\s*:\s*FuncPtrInternal\s*,\s*jit_memory\s*:\s*\*mut\s+u8\s*,\s*jit_size\s*:\s*usize\s*,\s*original_bytes\s*:\s*&\[u8\]\s*,?\s*\)\s*->\s*PatchGuard"
                try:
                    have_b = re.search(shape, open(pa).read()) is not None
                except OSError:
                    have_b = False
                if rel == os.path.join("injector_core", "patch_arm64.rs") and have_b:
                    text = re.sub(r"(?<![A-Za-z0-9_(])fn\s+apply_branch_patch\s*\(", "pub(crate) fn apply_branch_patch(", text, count=1)
                if rel == "lib.rs":
                    if have_b:
                        text += """
pub fn __verif_branch_patch(func: usize, jit: usize) -> Option<Result<(), String>> {
    use crate::injector_core::common::{read_bytes, FuncPtrInternal};
    let r = std::panic::catch_unwind(move || unsafe {
        let src = FuncPtrInternal::new(std::ptr::NonNull::new_unchecked(func as *mut ()));
        let orig = read_bytes(func as *mut u8, 12);
        let g = crate::injector_core::patch_arm64::apply_branch_patch(src, jit as *mut u8, 20, &orig);
        std::mem::forget(g);
    });
    Some(r.map_err(|p| p.downcast_ref::<String>().cloned().or_else(|| p.downcast_ref::<&str>().map(|s| s.to_string())).unwrap_or_default()))
}
"""
                    else:
                        text += "\npub fn __verif_branch_patch(_func: usize, _jit: usize) -> Option<Result<(), String>> { None }\n"
            dst = os.path.join(out_root, "src", rel)
            wanted.add(dst)
            write_if_changed(dst, text)
    # remove stale files
    for dirpath, _dirs, files in os.walk(os.path.join(out_root, "src")):
        for fn in files:
            p = os.path.join(dirpath, fn)
            if p not in wanted and ".tmp" not in fn:
                os.remove(p)
    dep = "simos = { path = \"../../simos\" }" if kind == "sim" else \
        "simsched = { path = \"../../simsched\" }\nlibc = \"0.2\""
    manifest = (
        "[package]\nname = \"%s\"\nversion = \"0.0.0\"\nedition = \"2021\"\n\n"
        "[lib]\npath = \"src/lib.rs\"\n\n[dependencies]\n%s\n" % (crate, dep)
    )
    write_if_changed(os.path.join(out_root, "Cargo.toml"), manifest)
    # anchor checks: refuse to guess if the seams moved
    if kind == "sim":
        if counts.get("libc", 0) == 0 and arch != "arm":
            die("%s: no libc:: call sites found (seam anchor missing)" % name)
        if counts.get("use_ptr", 0) + counts.get("ptr_path", 0) == 0:
            die("%s: no std::ptr anchor found (memory seam missing)" % name)
    else:
        if counts.get("sync", 0) == 0:
            die("%s: no std::sync anchor found in src/interface (scheduler seam missing)" % name)
    return counts


def generate_sched_arms():
    """vsched/src/arms_gen.rs: one instantiation per counted (`times:`) arm of fake!, for the T family
    "arms" (C06: exact accounting under concurrent calls, for every arm).  If the macro cannot be
    parsed the module is generated empty and the family reports that it was skipped."""
    sys.path.insert(0, os.path.join(os.path.dirname(os.path.dirname(HERE)), "lib"))
    out = ["// generated by harness/gen/gen.py from /repo/src/interface/macros.rs; do not edit",
           "#![allow(unused, clippy::all)]",
           "use ipp_sched::interface::injector::*;",
           "use std::panic::{catch_unwind, AssertUnwindSafe};",
           "pub static ARMS_N: std::sync::atomic::AtomicUsize = std::sync::atomic::AtomicUsize::new(0);", ""]
    arms = []
    try:
        import c08
        src = open(os.path.join(REPO, "src", "interface", "macros.rs")).read()
        parsed = c08.parse_arms(src) or []
        arms = [a for a in parsed if not a.get("unparsed") and "times" in a["opts"]]
    except Exception as e:  # noqa
        arms = []
    installs, calls, names = [], [], []
    for k, arm in enumerate(arms):
        q, ptr, ret = c08.fn_type(arm)
        fnty = "%sfn(u32, %s)%s" % (q, ptr, ret)
        lines = ["func_type: %sfn(a: u32, out: %s) -> %s" % (q, ptr, "()" if arm["unit"] else "u32")]
        for o in arm["opts"]:
            if o == "when":
                lines.append("when: a < 100")
            elif o == "assign":
                lines.append("assign: { *out = a + 1; }")
            elif o == "returns":
                lines.append("returns: a + 1")
            elif o == "times":
                lines.append("times: crate::arms_gen::ARMS_N.load(std::sync::atomic::Ordering::SeqCst)")
        body = ("let _ = out; " if arm["abi"] != "Rust" else "let _ = &out; ") + "std::hint::black_box(a); " + ("" if arm["unit"] else "1")
        out.append("#[inline(never)]\n%sfn arm_target_%d(a: u32, out: %s)%s { %s }" % (q, k, ptr, ret, body))
        installs.append("        %d => inj.when_called(ipp_sched::func!(arm_target_%d, %s)).will_execute({ let p = ipp_sched::fake!(\n            %s\n        ); if let CallCountVerifier::WithCount { counter, .. } = &p.1 { counter.store(0, simsched::sync::atomic::Ordering::SeqCst); } p })," % (k, k, fnty, ",\n            ".join(lines)))
        outarg = "&mut out as *mut u32" if arm["abi"] != "Rust" else "&mut out"
        call = "f(a, %s)" % outarg
        if arm["unsafe"]:
            call = "unsafe { %s }" % call
        calls.append("        %d => { let f: %s = std::hint::black_box(arm_target_%d); let mut out: u32 = 5; catch_unwind(AssertUnwindSafe(|| { %s; })).is_ok() }" % (k, fnty, k, call))
        names.append(arm["pattern"])
    out.append("pub const ARM_COUNT: usize = %d;" % len(arms))
    out.append("pub fn arm_name(k: usize) -> &'static str {\n    match k {\n%s\n        _ => \"?\",\n    }\n}" % "\n".join("        %d => %s," % (k, json_str(n)) for k, n in enumerate(names)))
    out.append("pub fn install(k: usize, inj: &mut InjectorPP) {\n    match k {\n%s\n        _ => {}\n    }\n}" % "\n".join(installs))
    out.append("pub fn call(k: usize, a: u32) -> bool {\n    match k {\n%s\n        _ => false,\n    }\n}" % "\n".join(calls))
    write_if_changed(os.path.join(os.path.dirname(HERE), "vsched", "src", "arms_gen.rs"), "\n".join(out) + "\n")


def json_str(s):
    import json
    return json.dumps(s)


def main():
    names = sys.argv[1:] or list(VARIANTS)
    if "sched" in names:
        generate_sched_arms()
    for n in names:
        if n not in VARIANTS:
            die("unknown variant " + n)
        generate(n)


if __name__ == "__main__":
    main()
