//! Reference interpreters (DESIGN 2.2), written from the architecture manuals and sharing no
//! code with the repository's emitters.  They execute from a function entry over a symbolic
//! register file (every register starts as "the caller's value") until control leaves the byte
//! ranges the injector wrote (`allowed`), reaches `stop_at`, or returns to the caller.
//!
//! They accept a deliberate superset of what the pinned tree emits (alternative but valid
//! encodings of "load an address and branch"), so that an equivalent re-implementation is not
//! flagged; anything they cannot decode is reported in `error`.

use crate::world::{World, PROT_R, PROT_X};

#[derive(Clone, Debug, Default)]
pub struct Exec {
    pub final_pc: u64,
    /// arm only: instruction-set state at exit
    pub thumb: bool,
    pub steps: u32,
    /// bitmask of architectural registers written (index = register number; x86: rax=0 rcx=1 rdx=2
    /// rbx=3 rsp=4 rbp=5 rsi=6 rdi=7 r8..r15; a64: x0..x30, 31 = sp; arm: r0..r15)
    pub written: u64,
    /// value of the result register at exit (x86 rax, a64 x0, arm r0) as (known-bits mask, value)
    pub result: (u64, u64),
    pub returned: bool,
    /// (address, width, value) of data loads performed
    pub loads: Vec<(u64, u8, u64)>,
    /// net stack pointer change at exit, bytes (x86 `ret` pops 8)
    pub stack_delta: i64,
    pub executed: Vec<u64>,
    /// byte length of each executed instruction (parallel to `executed`)
    pub lens: Vec<u8>,
    pub error: Option<String>,
}

fn in_ranges(allowed: &[(u64, u64)], pc: u64) -> bool {
    allowed.iter().any(|(s, e)| pc >= *s && pc < *e)
}

fn fetch(w: &World, addr: u64, n: usize) -> Result<Vec<u8>, String> {
    for i in 0..n as u64 {
        match w.prot_at(addr.wrapping_add(i)) {
            Some(p) if p & PROT_X != 0 => {}
            Some(_) => return Err(format!("fetch from non-executable memory at {:#x}", addr + i)),
            None => return Err(format!("fetch from unmapped memory at {:#x}", addr.wrapping_add(i))),
        }
    }
    w.peek(addr, n).ok_or_else(|| format!("fetch from unmapped memory at {addr:#x}"))
}

fn load(w: &World, addr: u64, n: usize) -> Result<u64, String> {
    for i in 0..n as u64 {
        match w.prot_at(addr.wrapping_add(i)) {
            Some(p) if p & PROT_R != 0 => {}
            _ => return Err(format!("data load from inaccessible memory at {:#x}", addr.wrapping_add(i))),
        }
    }
    let b = w.peek(addr, n).ok_or_else(|| format!("data load from unmapped memory at {addr:#x}"))?;
    let mut v = 0u64;
    for (i, x) in b.iter().enumerate() {
        v |= (*x as u64) << (8 * i);
    }
    Ok(v)
}

// ------------------------------------------------------------------------------------------ x86-64

#[derive(Clone, Copy)]
struct XReg {
    mask: u64,
    val: u64,
}

pub fn run_x86_64(w: &World, entry: u64, allowed: &[(u64, u64)], stop_at: Option<u64>, max_steps: u32) -> Exec {
    let mut ex = Exec::default();
    let mut regs = [XReg { mask: 0, val: 0 }; 16];
    let mut stack: Vec<XReg> = Vec::new();
    let mut pc = entry;
    macro_rules! fail {
        ($($a:tt)*) => {{ ex.error = Some(format!($($a)*)); break; }};
    }
    loop {
        if Some(pc) == stop_at || !in_ranges(allowed, pc) {
            break;
        }
        if ex.steps >= max_steps {
            fail!("step budget exhausted at {pc:#x} (loop?)");
        }
        ex.steps += 1;
        ex.executed.push(pc);
        let b = match fetch(w, pc, 1) {
            Ok(b) => b[0],
            Err(e) => fail!("{e}"),
        };
        let mut p = pc;
        let mut rex = 0u8;
        let mut op = b;
        // endbr64
        if op == 0xF3 {
            match fetch(w, pc, 4) {
                Ok(v) if v == [0xF3, 0x0F, 0x1E, 0xFA] => {
                    ex.lens.push(4);
                    pc += 4;
                    continue;
                }
                _ => fail!("cannot decode F3-prefixed instruction at {pc:#x}"),
            }
        }
        if op & 0xF0 == 0x40 {
            rex = op;
            p += 1;
            op = match fetch(w, p, 1) {
                Ok(b) => b[0],
                Err(e) => fail!("{e}"),
            };
        }
        let rex_w = rex & 8 != 0;
        let rex_b = ((rex & 1) << 3) as usize;
        let rex_r = ((rex & 4) << 1) as usize;
        match op {
            0x90 => {
                ex.lens.push((p + 1 - pc) as u8);
                pc = p + 1
            }
            0xE9 => {
                let d = match fetch(w, p + 1, 4) {
                    Ok(v) => i32::from_le_bytes([v[0], v[1], v[2], v[3]]),
                    Err(e) => fail!("{e}"),
                };
                ex.lens.push((p + 5 - pc) as u8);
                pc = (p + 5).wrapping_add(d as i64 as u64);
            }
            0xEB => {
                let d = match fetch(w, p + 1, 1) {
                    Ok(v) => v[0] as i8,
                    Err(e) => fail!("{e}"),
                };
                ex.lens.push((p + 2 - pc) as u8);
                pc = (p + 2).wrapping_add(d as i64 as u64);
            }
            0xB8..=0xBF => {
                let r = (op as usize & 7) | rex_b;
                if rex_w {
                    let v = match fetch(w, p + 1, 8) {
                        Ok(v) => u64::from_le_bytes(v.try_into().unwrap()),
                        Err(e) => fail!("{e}"),
                    };
                    regs[r] = XReg { mask: u64::MAX, val: v };
                    ex.lens.push((p + 9 - pc) as u8);
                    pc = p + 9;
                } else {
                    let v = match fetch(w, p + 1, 4) {
                        Ok(v) => u32::from_le_bytes(v.try_into().unwrap()),
                        Err(e) => fail!("{e}"),
                    };
                    regs[r] = XReg { mask: u64::MAX, val: v as u64 };
                    ex.lens.push((p + 5 - pc) as u8);
                    pc = p + 5;
                }
                ex.written |= 1 << r;
            }
            0xB0..=0xB7 => {
                let r = op as usize & 7;
                // without REX, B4..B7 are ah,ch,dh,bh
                let v = match fetch(w, p + 1, 1) {
                    Ok(v) => v[0] as u64,
                    Err(e) => fail!("{e}"),
                };
                if rex == 0 && r >= 4 {
                    let rr = r - 4;
                    regs[rr].mask |= 0xFF00;
                    regs[rr].val = (regs[rr].val & !0xFF00) | (v << 8);
                    ex.written |= 1 << rr;
                } else {
                    let rr = r | rex_b;
                    regs[rr].mask |= 0xFF;
                    regs[rr].val = (regs[rr].val & !0xFF) | v;
                    ex.written |= 1 << rr;
                }
                ex.lens.push((p + 2 - pc) as u8);
                pc = p + 2;
            }
            0xC7 => {
                let m = match fetch(w, p + 1, 1) {
                    Ok(v) => v[0],
                    Err(e) => fail!("{e}"),
                };
                if m & 0xC0 != 0xC0 || (m >> 3) & 7 != 0 {
                    fail!("unsupported C7 form (modrm {m:#x}) at {pc:#x}");
                }
                let r = (m as usize & 7) | rex_b;
                let v = match fetch(w, p + 2, 4) {
                    Ok(v) => i32::from_le_bytes(v.try_into().unwrap()),
                    Err(e) => fail!("{e}"),
                };
                let val = if rex_w { v as i64 as u64 } else { v as u32 as u64 };
                regs[r] = XReg { mask: u64::MAX, val };
                ex.written |= 1 << r;
                ex.lens.push((p + 6 - pc) as u8);
                pc = p + 6;
            }
            0x31 | 0x33 => {
                let m = match fetch(w, p + 1, 1) {
                    Ok(v) => v[0],
                    Err(e) => fail!("{e}"),
                };
                let a = (m as usize & 7) | rex_b;
                let b2 = ((m as usize >> 3) & 7) | rex_r;
                if m & 0xC0 != 0xC0 || a != b2 {
                    fail!("unsupported xor form at {pc:#x}");
                }
                regs[a] = XReg { mask: u64::MAX, val: 0 };
                ex.written |= 1 << a;
                ex.lens.push((p + 2 - pc) as u8);
                pc = p + 2;
            }
            0xFF => {
                let m = match fetch(w, p + 1, 1) {
                    Ok(v) => v[0],
                    Err(e) => fail!("{e}"),
                };
                let ext = (m >> 3) & 7;
                if m & 0xC0 == 0xC0 && ext == 4 {
                    let r = (m as usize & 7) | rex_b;
                    if regs[r].mask != u64::MAX {
                        fail!("indirect jump through a register the sequence did not fully set (reg {r}) at {pc:#x}");
                    }
                    ex.lens.push((p + 2 - pc) as u8);
                    pc = regs[r].val;
                } else if m == 0x25 {
                    // jmp qword ptr [rip+disp32]
                    let d = match fetch(w, p + 2, 4) {
                        Ok(v) => i32::from_le_bytes(v.try_into().unwrap()),
                        Err(e) => fail!("{e}"),
                    };
                    let a = (p + 6).wrapping_add(d as i64 as u64);
                    match load(w, a, 8) {
                        Ok(v) => {
                            ex.loads.push((a, 8, v));
                            ex.lens.push((p + 6 - pc) as u8);
                            pc = v;
                        }
                        Err(e) => fail!("{e}"),
                    }
                } else {
                    fail!("unsupported FF form (modrm {m:#x}) at {pc:#x}");
                }
            }
            0x50..=0x57 => {
                let r = (op as usize & 7) | rex_b;
                stack.push(regs[r]);
                ex.stack_delta -= 8;
                ex.written |= 1 << 4;
                ex.lens.push((p + 1 - pc) as u8);
                pc = p + 1;
            }
            0x58..=0x5F => {
                let r = (op as usize & 7) | rex_b;
                regs[r] = stack.pop().unwrap_or(XReg { mask: 0, val: 0 });
                ex.stack_delta += 8;
                ex.written |= (1 << r) | (1 << 4);
                ex.lens.push((p + 1 - pc) as u8);
                pc = p + 1;
            }
            0x68 => {
                let v = match fetch(w, p + 1, 4) {
                    Ok(v) => i32::from_le_bytes(v.try_into().unwrap()),
                    Err(e) => fail!("{e}"),
                };
                stack.push(XReg { mask: u64::MAX, val: v as i64 as u64 });
                ex.stack_delta -= 8;
                ex.written |= 1 << 4;
                ex.lens.push((p + 5 - pc) as u8);
                pc = p + 5;
            }
            0xC3 => {
                ex.lens.push((p + 1 - pc) as u8);
                ex.stack_delta += 8;
                match stack.pop() {
                    Some(x) if x.mask == u64::MAX => pc = x.val,
                    Some(_) => fail!("ret through a partially known pushed value at {pc:#x}"),
                    None => {
                        ex.returned = true;
                        pc = 0;
                        break;
                    }
                }
            }
            _ => fail!("cannot decode opcode {op:#04x} (rex {rex:#04x}) at {pc:#x}"),
        }
    }
    ex.final_pc = pc;
    ex.result = (regs[0].mask, regs[0].val);
    // rax/rsp writes by ret are architectural; report rsp only when the net delta is unusual
    ex
}

// ------------------------------------------------------------------------------------------ A64

fn sext(v: u64, bits: u32) -> i64 {
    let sh = 64 - bits;
    ((v << sh) as i64) >> sh
}

pub fn run_a64(w: &World, entry: u64, allowed: &[(u64, u64)], stop_at: Option<u64>, max_steps: u32) -> Exec {
    let mut ex = Exec::default();
    let mut regs: [Option<u64>; 32] = [None; 32]; // 31 = sp
    let mut pc = entry;
    macro_rules! fail {
        ($($a:tt)*) => {{ ex.error = Some(format!($($a)*)); break; }};
    }
    loop {
        if Some(pc) == stop_at || !in_ranges(allowed, pc) {
            break;
        }
        if pc & 3 != 0 {
            fail!("misaligned pc {pc:#x}");
        }
        if ex.steps >= max_steps {
            fail!("step budget exhausted at {pc:#x} (loop?)");
        }
        ex.steps += 1;
        ex.executed.push(pc);
        ex.lens.push(4);
        let insn = match fetch(w, pc, 4) {
            Ok(v) => u32::from_le_bytes(v.try_into().unwrap()),
            Err(e) => fail!("{e}"),
        };
        let rd = (insn & 31) as usize;
        let rn = ((insn >> 5) & 31) as usize;
        if insn & 0x7C00_0000 == 0x1400_0000 {
            // B / BL
            let off = sext((insn & 0x03FF_FFFF) as u64, 26) * 4;
            if insn >> 31 == 1 {
                regs[30] = Some(pc + 4);
                ex.written |= 1 << 30;
            }
            pc = pc.wrapping_add(off as u64);
        } else if insn & 0xFFFF_FC1F == 0xD61F_0000 || insn & 0xFFFF_FC1F == 0xD63F_0000 {
            // BR / BLR
            let t = match regs[rn] {
                Some(v) => v,
                None => fail!("br through x{rn} which the sequence did not set, at {pc:#x}"),
            };
            if insn & 0x0020_0000 != 0 {
                regs[30] = Some(pc + 4);
                ex.written |= 1 << 30;
            }
            pc = t;
        } else if insn & 0xFFFF_FC1F == 0xD65F_0000 {
            // RET Xn
            match regs[rn] {
                None if rn == 30 => {
                    ex.returned = true;
                    pc = 0;
                    break;
                }
                None => fail!("ret through x{rn} (not the link register, not set) at {pc:#x}"),
                Some(v) => pc = v,
            }
        } else if insn & 0x1F80_0000 == 0x1280_0000 {
            // move wide immediate: sf opc 100101 hw imm16 Rd
            let sf = insn >> 31;
            let opc = (insn >> 29) & 3;
            let hw = (insn >> 21) & 3;
            let imm = ((insn >> 5) & 0xFFFF) as u64;
            if sf == 0 && hw > 1 {
                fail!("reserved move-wide encoding {insn:#010x} at {pc:#x}");
            }
            let sh = hw * 16;
            let v = match opc {
                0 => Some(!(imm << sh)),            // MOVN
                2 => Some(imm << sh),               // MOVZ
                3 => regs[rd].map(|old| (old & !(0xFFFFu64 << sh)) | (imm << sh)), // MOVK
                _ => fail!("unallocated move-wide opc at {pc:#x}"),
            };
            let v = if sf == 0 { v.map(|x| x & 0xFFFF_FFFF) } else { v };
            if opc == 3 && regs[rd].is_none() && rd != 31 {
                fail!("movk into x{rd} whose other bits are the caller's (undefined result) at {pc:#x}");
            }
            if rd != 31 {
                regs[rd] = v;
                ex.written |= 1 << rd;
            }
            pc += 4;
        } else if insn & 0x1F00_0000 == 0x1000_0000 {
            // ADR / ADRP
            let immlo = ((insn >> 29) & 3) as u64;
            let immhi = ((insn >> 5) & 0x7FFFF) as u64;
            let imm = sext((immhi << 2) | immlo, 21);
            let v = if insn >> 31 == 1 { (pc & !0xFFF).wrapping_add((imm << 12) as u64) } else { pc.wrapping_add(imm as u64) };
            if rd != 31 {
                regs[rd] = Some(v);
                ex.written |= 1 << rd;
            }
            pc += 4;
        } else if insn & 0x1F80_0000 == 0x1100_0000 {
            // ADD/SUB (immediate): sf op S 100010 sh imm12 Rn Rd
            let sf = insn >> 31;
            let sub = (insn >> 30) & 1;
            let s = (insn >> 29) & 1;
            let sh = (insn >> 22) & 1;
            let mut imm = ((insn >> 10) & 0xFFF) as u64;
            if sh == 1 {
                imm <<= 12;
            }
            if s == 1 {
                fail!("flag-setting add/sub at {pc:#x} not expected in a patch");
            }
            let a = match regs[rn] {
                Some(v) => v,
                None => fail!("add/sub reads x{rn} which the sequence did not set, at {pc:#x}"),
            };
            let mut v = if sub == 1 { a.wrapping_sub(imm) } else { a.wrapping_add(imm) };
            if sf == 0 {
                v &= 0xFFFF_FFFF;
            }
            regs[rd] = Some(v);
            ex.written |= 1 << rd;
            pc += 4;
        } else if insn & 0xFFFF_F01F == 0xD503_201F {
            // hint space (NOP, BTI, ...)
            pc += 4;
        } else if insn & 0xBF00_0000 == 0x1800_0000 {
            // LDR (literal) 32/64-bit
            let is64 = (insn >> 30) & 1 == 1;
            let off = sext(((insn >> 5) & 0x7FFFF) as u64, 19) * 4;
            let a = pc.wrapping_add(off as u64);
            match load(w, a, if is64 { 8 } else { 4 }) {
                Ok(v) => {
                    ex.loads.push((a, if is64 { 8 } else { 4 }, v));
                    if rd != 31 {
                        regs[rd] = Some(v);
                        ex.written |= 1 << rd;
                    }
                }
                Err(e) => fail!("{e}"),
            }
            pc += 4;
        } else if insn & 0xFFE0_FFE0 == 0xAA00_03E0 {
            // MOV Xd, Xm (ORR Xd, XZR, Xm)
            let rm = ((insn >> 16) & 31) as usize;
            let v = if rm == 31 { Some(0) } else { regs[rm] };
            if v.is_none() {
                fail!("mov from x{rm} (caller's value) at {pc:#x}");
            }
            if rd != 31 {
                regs[rd] = v;
                ex.written |= 1 << rd;
            }
            pc += 4;
        } else {
            fail!("cannot decode A64 instruction {insn:#010x} at {pc:#x}");
        }
    }
    ex.final_pc = pc;
    ex.result = match regs[0] {
        Some(v) => (u64::MAX, v),
        None => (0, 0),
    };
    ex
}

// ------------------------------------------------------------------------------------------ A32/T32

fn arm_expand_imm(imm12: u32) -> u32 {
    let rot = (imm12 >> 8) * 2;
    (imm12 & 0xFF).rotate_right(rot)
}

/// `entry` carries the instruction-set state in bit 0 (1 = Thumb), as a function pointer does.
pub fn run_arm(w: &World, entry: u64, allowed: &[(u64, u64)], stop_at: Option<u64>, max_steps: u32) -> Exec {
    let mut ex = Exec::default();
    let mut regs: [Option<u32>; 16] = [None; 16];
    let mut thumb = entry & 1 == 1;
    let mut pc = entry & !1;
    macro_rules! fail {
        ($($a:tt)*) => {{ ex.error = Some(format!($($a)*)); break; }};
    }
    // interworking branch to `v`
    macro_rules! bx_to {
        ($v:expr) => {{
            let v: u32 = $v;
            if v & 1 == 1 {
                thumb = true;
                pc = (v & !1) as u64;
            } else if v & 2 == 0 {
                thumb = false;
                pc = v as u64;
            } else {
                fail!("bx to {v:#x}: unpredictable (bits[1:0] = 10)");
            }
        }};
    }
    loop {
        let as_ptr = pc | thumb as u64;
        if stop_at == Some(as_ptr) || !in_ranges(allowed, pc) {
            break;
        }
        if ex.steps >= max_steps {
            fail!("step budget exhausted at {pc:#x} (loop?)");
        }
        ex.steps += 1;
        ex.executed.push(pc);
        if !thumb {
            if pc & 3 != 0 {
                fail!("misaligned ARM pc {pc:#x}");
            }
            let insn = match fetch(w, pc, 4) {
                Ok(v) => u32::from_le_bytes(v.try_into().unwrap()),
                Err(e) => fail!("{e}"),
            };
            ex.lens.push(4);
            if insn >> 28 != 0xE {
                fail!("conditional or unconditional-space ARM instruction {insn:#010x} at {pc:#x}");
            }
            let pcv = (pc as u32).wrapping_add(8);
            if insn & 0x0F7F_0000 == 0x051F_0000 {
                // LDR Rt, [PC, #+/-imm12]
                let rt = ((insn >> 12) & 15) as usize;
                let imm = insn & 0xFFF;
                let base = pcv & !3;
                let a = if insn & 0x0080_0000 != 0 { base.wrapping_add(imm) } else { base.wrapping_sub(imm) };
                match load(w, a as u64, 4) {
                    Ok(v) => {
                        ex.loads.push((a as u64, 4, v));
                        if rt == 15 {
                            bx_to!(v as u32);
                            continue;
                        }
                        regs[rt] = Some(v as u32);
                        ex.written |= 1 << rt;
                    }
                    Err(e) => fail!("{e}"),
                }
                pc += 4;
            } else if insn & 0x0FFF_FFD0 == 0x012F_FF10 {
                // BX / BLX Rm
                let rm = (insn & 15) as usize;
                let v = match regs[rm] {
                    Some(v) => v,
                    None if rm == 14 && insn & 0x20 == 0 => {
                        ex.returned = true;
                        pc = 0;
                        break;
                    }
                    None => fail!("bx through r{rm} which the sequence did not set, at {pc:#x}"),
                };
                if insn & 0x20 != 0 {
                    regs[14] = Some((pc as u32).wrapping_add(4));
                    ex.written |= 1 << 14;
                }
                bx_to!(v);
            } else if insn & 0x0E00_0000 == 0x0A00_0000 {
                // B / BL
                let off = (sext((insn & 0x00FF_FFFF) as u64, 24) << 2) as i32;
                if insn & 0x0100_0000 != 0 {
                    regs[14] = Some((pc as u32).wrapping_add(4));
                    ex.written |= 1 << 14;
                }
                pc = pcv.wrapping_add(off as u32) as u64;
            } else if insn & 0x0FF0_0000 == 0x0300_0000 {
                // MOVW
                let rd = ((insn >> 12) & 15) as usize;
                let imm = ((insn >> 4) & 0xF000) | (insn & 0xFFF);
                regs[rd] = Some(imm);
                ex.written |= 1 << rd;
                pc += 4;
            } else if insn & 0x0FF0_0000 == 0x0340_0000 {
                // MOVT
                let rd = ((insn >> 12) & 15) as usize;
                let imm = ((insn >> 4) & 0xF000) | (insn & 0xFFF);
                match regs[rd] {
                    Some(old) => regs[rd] = Some((old & 0xFFFF) | (imm << 16)),
                    None => fail!("movt into r{rd} whose low half is the caller's, at {pc:#x}"),
                }
                ex.written |= 1 << rd;
                pc += 4;
            } else if insn & 0x0FEF_0000 == 0x03A0_0000 {
                // MOV Rd, #imm (no S)
                let rd = ((insn >> 12) & 15) as usize;
                regs[rd] = Some(arm_expand_imm(insn & 0xFFF));
                ex.written |= 1 << rd;
                pc += 4;
            } else if insn == 0xE320_F000 || insn == 0xE1A0_0000 {
                pc += 4;
            } else {
                fail!("cannot decode A32 instruction {insn:#010x} at {pc:#x}");
            }
        } else {
            if pc & 1 != 0 {
                fail!("misaligned Thumb pc {pc:#x}");
            }
            let hw1 = match fetch(w, pc, 2) {
                Ok(v) => u16::from_le_bytes([v[0], v[1]]) as u32,
                Err(e) => fail!("{e}"),
            };
            let pcv = (pc as u32).wrapping_add(4);
            let is32 = hw1 >> 11 >= 0x1D;
            ex.lens.push(if is32 { 4 } else { 2 });
            if !is32 {
                if hw1 & 0xF800 == 0x4800 {
                    // LDR Rt, [PC, #imm8*4]
                    let rt = ((hw1 >> 8) & 7) as usize;
                    let a = (pcv & !3).wrapping_add((hw1 & 0xFF) * 4);
                    match load(w, a as u64, 4) {
                        Ok(v) => {
                            ex.loads.push((a as u64, 4, v));
                            regs[rt] = Some(v as u32);
                            ex.written |= 1 << rt;
                        }
                        Err(e) => fail!("{e}"),
                    }
                    pc += 2;
                } else if hw1 & 0xFF07 == 0x4700 {
                    // BX / BLX Rm
                    let rm = ((hw1 >> 3) & 15) as usize;
                    let v = match regs[rm] {
                        Some(v) => v,
                        None if rm == 14 && hw1 & 0x80 == 0 => {
                            ex.returned = true;
                            pc = 0;
                            break;
                        }
                        None => fail!("bx through r{rm} which the sequence did not set, at {pc:#x}"),
                    };
                    if hw1 & 0x80 != 0 {
                        regs[14] = Some((pc as u32).wrapping_add(2) | 1);
                        ex.written |= 1 << 14;
                    }
                    bx_to!(v);
                } else if hw1 == 0xBF00 {
                    pc += 2;
                } else if hw1 & 0xFF00 == 0x4600 {
                    // MOV Rd, Rm (high registers allowed)
                    let rd = (((hw1 >> 4) & 8) | (hw1 & 7)) as usize;
                    let rm = ((hw1 >> 3) & 15) as usize;
                    if rd == rm {
                        // architectural no-op (e.g. mov r8, r8)
                        pc += 2;
                    } else if rd == 15 {
                        fail!("mov pc, r{rm} at {pc:#x} not expected in a patch");
                    } else {
                        match regs[rm] {
                            Some(v) => regs[rd] = Some(v),
                            None => fail!("mov from r{rm} (caller's value) at {pc:#x}"),
                        }
                        ex.written |= 1 << rd;
                        pc += 2;
                    }
                } else {
                    fail!("cannot decode T16 instruction {hw1:#06x} at {pc:#x}");
                }
            } else {
                let hw2 = match fetch(w, pc + 2, 2) {
                    Ok(v) => u16::from_le_bytes([v[0], v[1]]) as u32,
                    Err(e) => fail!("{e}"),
                };
                if hw1 & 0xFF7F == 0xF85F {
                    // LDR.W Rt, [PC, #+/-imm12]
                    let rt = ((hw2 >> 12) & 15) as usize;
                    let imm = hw2 & 0xFFF;
                    let base = pcv & !3;
                    let a = if hw1 & 0x80 != 0 { base.wrapping_add(imm) } else { base.wrapping_sub(imm) };
                    match load(w, a as u64, 4) {
                        Ok(v) => {
                            ex.loads.push((a as u64, 4, v));
                            if rt == 15 {
                                bx_to!(v as u32);
                                continue;
                            }
                            regs[rt] = Some(v as u32);
                            ex.written |= 1 << rt;
                        }
                        Err(e) => fail!("{e}"),
                    }
                    pc += 4;
                } else if hw1 & 0xFBF0 == 0xF240 && hw2 & 0x8000 == 0 {
                    // MOVW T3
                    let rd = ((hw2 >> 8) & 15) as usize;
                    let imm = ((hw1 & 0xF) << 12) | (((hw1 >> 10) & 1) << 11) | (((hw2 >> 12) & 7) << 8) | (hw2 & 0xFF);
                    regs[rd] = Some(imm);
                    ex.written |= 1 << rd;
                    pc += 4;
                } else if hw1 & 0xFBF0 == 0xF2C0 && hw2 & 0x8000 == 0 {
                    // MOVT
                    let rd = ((hw2 >> 8) & 15) as usize;
                    let imm = ((hw1 & 0xF) << 12) | (((hw1 >> 10) & 1) << 11) | (((hw2 >> 12) & 7) << 8) | (hw2 & 0xFF);
                    match regs[rd] {
                        Some(old) => regs[rd] = Some((old & 0xFFFF) | (imm << 16)),
                        None => fail!("movt into r{rd} whose low half is the caller's, at {pc:#x}"),
                    }
                    ex.written |= 1 << rd;
                    pc += 4;
                } else if hw1 & 0xF800 == 0xF000 && hw2 & 0xD000 == 0x9000 {
                    // B.W (encoding T4): stays in Thumb state
                    let sbit = (hw1 >> 10) & 1;
                    let j1 = (hw2 >> 13) & 1;
                    let j2 = (hw2 >> 11) & 1;
                    let i1 = !(j1 ^ sbit) & 1;
                    let i2 = !(j2 ^ sbit) & 1;
                    let imm = (sbit << 24) | (i1 << 23) | (i2 << 22) | ((hw1 & 0x3FF) << 12) | ((hw2 & 0x7FF) << 1);
                    let off = sext(imm as u64, 25) as i32;
                    pc = pcv.wrapping_add(off as u32) as u64;
                } else if hw1 == 0xF3AF && hw2 == 0x8000 {
                    pc += 4; // NOP.W
                } else {
                    fail!("cannot decode T32 instruction {hw1:#06x} {hw2:#06x} at {pc:#x}");
                }
            }
        }
    }
    ex.final_pc = pc | thumb as u64;
    ex.thumb = thumb;
    ex.result = match regs[0] {
        Some(v) => (u64::MAX, v as u64),
        None => (0, 0),
    };
    ex
}
