//! The one PRNG discipline: splitmix64 seeding, xoshiro256** stream.  No clock, no OS entropy.

pub fn splitmix64(state: &mut u64) -> u64 {
    *state = state.wrapping_add(0x9E37_79B9_7F4A_7C15);
    let mut z = *state;
    z = (z ^ (z >> 30)).wrapping_mul(0xBF58_476D_1CE4_E5B9);
    z = (z ^ (z >> 27)).wrapping_mul(0x94D0_49BB_1331_11EB);
    z ^ (z >> 31)
}

/// Scenario seed = f(VERIF_SEED, property tag, scenario index); independent of worker count.
pub fn scenario_seed(seed: u64, tag: &str, index: u64) -> u64 {
    let mut s = seed ^ 0xA076_1D64_78BD_642F;
    let mut h = splitmix64(&mut s);
    for b in tag.bytes() {
        s ^= (b as u64).wrapping_mul(0x100_0000_01B3);
        h ^= splitmix64(&mut s);
    }
    s ^= index.wrapping_mul(0xD6E8_FEB8_6659_FD93);
    h ^ splitmix64(&mut s)
}

#[derive(Clone, Debug)]
pub struct Rng {
    s: [u64; 4],
}

impl Rng {
    pub fn new(seed: u64) -> Rng {
        let mut st = seed;
        let s = [splitmix64(&mut st), splitmix64(&mut st), splitmix64(&mut st), splitmix64(&mut st)];
        Rng { s }
    }
    pub fn next_u64(&mut self) -> u64 {
        let r = self.s[1].wrapping_mul(5).rotate_left(7).wrapping_mul(9);
        let t = self.s[1] << 17;
        self.s[2] ^= self.s[0];
        self.s[3] ^= self.s[1];
        self.s[1] ^= self.s[2];
        self.s[0] ^= self.s[3];
        self.s[2] ^= t;
        self.s[3] = self.s[3].rotate_left(45);
        r
    }
    /// uniform in [0, n)
    pub fn below(&mut self, n: u64) -> u64 {
        if n == 0 {
            return 0;
        }
        // multiply-shift; bias negligible for our n
        ((self.next_u64() as u128 * n as u128) >> 64) as u64
    }
    /// uniform in [lo, hi] inclusive
    pub fn range(&mut self, lo: u64, hi: u64) -> u64 {
        if hi <= lo {
            return lo;
        }
        let span = hi - lo;
        if span == u64::MAX {
            return self.next_u64();
        }
        lo + self.below(span + 1)
    }
    pub fn chance(&mut self, num: u64, den: u64) -> bool {
        self.below(den) < num
    }
    pub fn pick<'a, T>(&mut self, xs: &'a [T]) -> &'a T {
        &xs[self.below(xs.len() as u64) as usize]
    }
    pub fn bytes(&mut self, n: usize) -> Vec<u8> {
        let mut v = Vec::with_capacity(n);
        while v.len() < n {
            let x = self.next_u64().to_le_bytes();
            let take = (n - v.len()).min(8);
            v.extend_from_slice(&x[..take]);
        }
        v
    }
}
