//! Simulated address space + kernel ("SimWorld", DESIGN 2.2).
//!
//! One world per thread.  Everything the transplanted injector does to memory or asks of the OS
//! ends up here as a state change plus an event in the log.

use std::cell::RefCell;
use std::collections::BTreeMap;

pub const PROT_R: i32 = 1;
pub const PROT_W: i32 = 2;
pub const PROT_X: i32 = 4;

/// The only range Linux x86-64 gives a PIE process (image, heap, mmap area, stack).  Addresses in
/// it are host memory; everything else is a simulated address.
pub const HOST_LO: u64 = 0x5500_0000_0000;
pub const HOST_HI: u64 = 0x8000_0000_0000;

#[inline]
pub fn is_host(addr: u64) -> bool {
    (HOST_LO..HOST_HI).contains(&addr)
}

#[derive(Clone, Copy, PartialEq, Eq, Debug)]
pub enum Owner {
    Text,
    Foreign,
    Injector,
    Alias,
}

#[derive(Clone, Debug)]
pub struct Region {
    pub end: u64,
    pub prot: i32,
    pub owner: Owner,
    pub data: Option<Vec<u8>>,
    pub serial: u64,
}

#[derive(Clone, Debug, PartialEq, Eq)]
pub enum Ev {
    /// ret == u64::MAX means MAP_FAILED / NULL
    Mmap { hint: u64, len: u64, prot: i32, flags: i32, ret: u64 },
    /// `own` = bitmask of owners whose pages were removed (1 text, 2 foreign, 4 injector, 8 alias)
    Munmap { addr: u64, len: u64, ret: i32, own: u8, exact: bool },
    Mprotect { addr: u64, len: u64, prot: i32, ret: i32 },
    Read { addr: u64, len: u64 },
    Write { addr: u64, bytes: Vec<u8>, own: u8 },
    /// kind: 0 __clear_cache, 1 FlushInstructionCache, 2 sys_icache_invalidate, 3 sys_dcache_flush
    Flush { start: u64, end: u64, kind: u8 },
    Barrier,
    Segv { addr: u64, write: bool },
    JitWp(i32),
    Remap { src: u64, dst: u64, len: u64, overwrite: bool },
    Mark(u32),
}

#[derive(Clone, Copy, PartialEq, Eq, Debug)]
pub enum HintMode {
    /// Linux: hint &= PAGE_MASK
    Down,
    /// legal variation: round up
    Up,
    /// legal variation: hint ignored altogether
    Ignore,
    /// Windows VirtualAlloc: round down to the allocation granularity, no fallback
    WinGranule,
}

#[derive(Clone, Debug)]
pub struct Policy {
    pub hint: HintMode,
    /// addresses tried (in order) when the hint cannot be honoured, before the top-down search
    pub fallback: Vec<u64>,
    pub topdown_base: u64,
    /// when the hint cannot be honoured return MAP_FAILED instead of falling back
    pub no_fallback: bool,
    /// 0-based indices of mmap calls that fail (sorted)
    pub fail_mmap: Vec<u64>,
    pub fail_mmap_all: bool,
    /// 0-based indices of mprotect calls that fail
    pub fail_mprotect: Vec<u64>,
    /// address ranges on which every mprotect fails (pages that can never be made writable)
    pub mprotect_deny: Vec<(u64, u64)>,
    /// part of the LAYOUT, not a fault: ranges whose protection can never be changed and which
    /// cannot be written through /proc/self/mem either (a read-only shared file mapping)
    pub immutable: Vec<(u64, u64)>,
    pub mmap_min_addr: u64,
    pub user_limit: u64,
    pub win_granule: u64,
}

impl Default for Policy {
    fn default() -> Self {
        Policy {
            hint: HintMode::Down,
            fallback: Vec::new(),
            topdown_base: 0x4fff_ffff_0000,
            no_fallback: false,
            fail_mmap: Vec::new(),
            fail_mmap_all: false,
            fail_mprotect: Vec::new(),
            mprotect_deny: Vec::new(),
            immutable: Vec::new(),
            mmap_min_addr: 0x1000,
            user_limit: 0x5000_0000_0000,
            win_granule: 0x10000,
        }
    }
}

#[derive(Default, Clone, Debug)]
pub struct Counters {
    pub mmap_calls: u64,
    pub mmap_failed: u64,
    pub mmap_injected_fail: u64,
    pub mmap_hint_honoured: u64,
    pub mmap_fallback: u64,
    pub munmap_calls: u64,
    pub mprotect_calls: u64,
    pub rejected_pairs: u64,
    pub mprotect_injected_fail: u64,
    pub mprotect_on_immutable: u64,
    pub writes: u64,
    pub reads: u64,
    pub flushes: u64,
    pub barriers: u64,
    pub segv: u64,
    pub events: u64,
}

pub struct World {
    pub page_size: u64,
    pub regions: BTreeMap<u64, Region>,
    pub events: Vec<Ev>,
    pub policy: Policy,
    pub counters: Counters,
    pub digest: u64,
    pub next_serial: u64,
    /// when true, failed mmap events are only counted/digested, not stored
    pub compact_failed_mmap: bool,
    /// a simulated SIGSEGV that happened while the thread was already unwinding
    pub pending_segv: Option<SimSegv>,
    /// "another thread is scheduled here": called after every OS-call boundary (mmap, munmap,
    /// mprotect, cache flush) with the world as it is at that instant
    pub observer: Option<Box<dyn FnMut(&World, &'static str)>>,
    pub observer_calls: u64,
}

#[derive(Debug, Clone, Copy)]
pub struct SimSegv {
    pub addr: u64,
    pub write: bool,
}

fn own_bit(o: Owner) -> u8 {
    match o {
        Owner::Text => 1,
        Owner::Foreign => 2,
        Owner::Injector => 4,
        Owner::Alias => 8,
    }
}

#[inline]
fn mix(h: u64, v: u64) -> u64 {
    let mut z = h ^ v.wrapping_mul(0x9E37_79B9_7F4A_7C15);
    z = (z ^ (z >> 30)).wrapping_mul(0xBF58_476D_1CE4_E5B9);
    z = (z ^ (z >> 27)).wrapping_mul(0x94D0_49BB_1331_11EB);
    z ^ (z >> 31)
}

impl World {
    pub fn new(page_size: u64) -> World {
        World {
            page_size,
            regions: BTreeMap::new(),
            events: Vec::new(),
            policy: Policy::default(),
            counters: Counters::default(),
            digest: 0x1234_5678,
            next_serial: 1,
            compact_failed_mmap: true,
            pending_segv: None,
            observer: None,
            observer_calls: 0,
        }
    }

    fn log(&mut self, ev: Ev) {
        self.counters.events += 1;
        let mut h = self.digest;
        match &ev {
            Ev::Mmap { hint, len, prot, flags, ret } => {
                h = mix(h, 1);
                h = mix(h, *hint);
                h = mix(h, *len);
                h = mix(h, *prot as u64);
                h = mix(h, *flags as u64);
                h = mix(h, *ret);
            }
            Ev::Munmap { addr, len, ret, own, exact } => {
                h = mix(h, 2);
                h = mix(h, *addr);
                h = mix(h, *len);
                h = mix(h, *ret as u64);
                h = mix(h, *own as u64 + if *exact { 256 } else { 0 });
            }
            Ev::Mprotect { addr, len, prot, ret } => {
                h = mix(h, 3);
                h = mix(h, *addr);
                h = mix(h, *len);
                h = mix(h, *prot as u64);
                h = mix(h, *ret as u64);
            }
            Ev::Read { addr, len } => {
                h = mix(h, 4);
                h = mix(h, *addr);
                h = mix(h, *len);
            }
            Ev::Write { addr, bytes, own } => {
                h = mix(h, 5);
                h = mix(h, *addr);
                h = mix(h, *own as u64);
                for b in bytes {
                    h = mix(h, *b as u64);
                }
            }
            Ev::Flush { start, end, kind } => {
                h = mix(h, 6);
                h = mix(h, *start);
                h = mix(h, *end);
                h = mix(h, *kind as u64);
            }
            Ev::Barrier => h = mix(h, 7),
            Ev::Segv { addr, write } => {
                h = mix(h, 8);
                h = mix(h, *addr);
                h = mix(h, *write as u64);
            }
            Ev::JitWp(v) => {
                h = mix(h, 9);
                h = mix(h, *v as u64);
            }
            Ev::Remap { src, dst, len, overwrite } => {
                h = mix(h, 10);
                h = mix(h, *src);
                h = mix(h, *dst);
                h = mix(h, *len);
                h = mix(h, *overwrite as u64);
            }
            Ev::Mark(m) => {
                h = mix(h, 11);
                h = mix(h, *m as u64);
            }
        }
        self.digest = h;
        if self.compact_failed_mmap {
            if let Ev::Mmap { ret, .. } = &ev {
                if *ret == u64::MAX {
                    return;
                }
            }
        }
        self.events.push(ev);
    }

    fn boundary(&mut self, what: &'static str) {
        // the first 48 boundaries of an API call, then every 2048th (a full scan makes 131 074)
        let n = self.observer_calls;
        self.observer_calls += 1;
        if n >= 48 && n % 2048 != 0 {
            return;
        }
        if let Some(mut h) = self.observer.take() {
            h(self, what);
            if self.observer.is_none() {
                self.observer = Some(h);
            }
        }
    }

    pub fn mark(&mut self, m: u32) {
        self.log(Ev::Mark(m));
    }

    fn page_down(&self, a: u64) -> u64 {
        a & !(self.page_size - 1)
    }
    fn page_up(&self, a: u64) -> u64 {
        a.checked_add(self.page_size - 1).map(|x| x & !(self.page_size - 1)).unwrap_or(u64::MAX & !(self.page_size - 1))
    }

    /// region containing `addr`
    pub fn region_at(&self, addr: u64) -> Option<(u64, &Region)> {
        self.regions.range(..=addr).next_back().and_then(|(s, r)| if addr < r.end { Some((*s, r)) } else { None })
    }

    pub fn is_free(&self, start: u64, end: u64) -> bool {
        if start >= end {
            return false;
        }
        if let Some((_, r)) = self.regions.range(..start).next_back() {
            if r.end > start {
                return false;
            }
        }
        self.regions.range(start..end).next().is_none()
    }

    /// Insert a region (harness set-up, not an injector action).
    pub fn map_fixed(&mut self, start: u64, len: u64, prot: i32, owner: Owner, data: Option<Vec<u8>>) {
        assert!(start % self.page_size == 0 && len % self.page_size == 0 && len > 0, "map_fixed alignment");
        assert!(self.is_free(start, start + len), "map_fixed overlap at {start:#x}");
        if let Some(d) = &data {
            assert_eq!(d.len() as u64, len);
        }
        let serial = self.next_serial;
        self.next_serial += 1;
        self.regions.insert(start, Region { end: start + len, prot, owner, data, serial });
    }

    pub fn split_at(&mut self, addr: u64) {
        let found = match self.region_at(addr) {
            Some((s, _)) if s != addr => Some(s),
            _ => None,
        };
        if let Some(s) = found {
            let mut r = self.regions.remove(&s).unwrap();
            let tail_data = r.data.as_mut().map(|d| d.split_off((addr - s) as usize));
            let tail = Region { end: r.end, prot: r.prot, owner: r.owner, data: tail_data, serial: r.serial };
            r.end = addr;
            self.regions.insert(s, r);
            self.regions.insert(addr, tail);
        }
    }

    fn usable(&self, start: u64, len: u64) -> bool {
        start >= self.policy.mmap_min_addr
            && start.checked_add(len).map(|e| e <= self.policy.user_limit).unwrap_or(false)
            && self.is_free(start, start + len)
    }

    fn topdown(&self, len: u64) -> Option<u64> {
        let mut hi = self.page_down(self.policy.topdown_base.min(self.policy.user_limit));
        loop {
            if hi < len || hi - len < self.policy.mmap_min_addr {
                return None;
            }
            let cand = hi - len;
            // any region overlapping [cand, hi)?
            let mut blocker: Option<u64> = None;
            if let Some((s, r)) = self.regions.range(..hi).next_back() {
                if r.end > cand {
                    blocker = Some(*s);
                }
            }
            match blocker {
                None => return Some(cand),
                Some(s) => hi = s,
            }
        }
    }

    /// The simulated `mmap` (anonymous, private).  Returns the address or u64::MAX.
    pub fn sys_mmap(&mut self, hint: u64, len: u64, prot: i32, flags: i32) -> u64 {
        let idx = self.counters.mmap_calls;
        self.counters.mmap_calls += 1;
        let plen = self.page_up(len.max(1));
        let injected = self.policy.fail_mmap_all || self.policy.fail_mmap.binary_search(&idx).is_ok();
        let mut ret = u64::MAX;
        if injected {
            self.counters.mmap_injected_fail += 1;
        } else {
            let mut honoured = false;
            if hint != 0 {
                let h = match self.policy.hint {
                    HintMode::Down => Some(self.page_down(hint)),
                    HintMode::Up => Some(self.page_up(hint)),
                    HintMode::Ignore => None,
                    HintMode::WinGranule => Some(hint & !(self.policy.win_granule - 1)),
                };
                if let Some(h) = h {
                    if self.usable(h, plen) {
                        ret = h;
                        honoured = true;
                    }
                }
            }
            if honoured {
                self.counters.mmap_hint_honoured += 1;
            } else if !(self.policy.no_fallback && hint != 0) && self.policy.hint != HintMode::WinGranule {
                if !self.policy.fallback.is_empty() {
                    let fb: Vec<u64> = self.policy.fallback.clone();
                    for f in fb {
                        let f = self.page_down(f);
                        if self.usable(f, plen) {
                            ret = f;
                            break;
                        }
                    }
                }
                if ret == u64::MAX {
                    if let Some(a) = self.topdown(plen) {
                        ret = a;
                    }
                }
                if ret != u64::MAX {
                    self.counters.mmap_fallback += 1;
                }
            }
        }
        if ret == u64::MAX {
            self.counters.mmap_failed += 1;
        } else {
            let serial = self.next_serial;
            self.next_serial += 1;
            self.regions.insert(
                ret,
                Region { end: ret + plen, prot, owner: Owner::Injector, data: None, serial },
            );
        }
        self.log(Ev::Mmap { hint, len, prot, flags, ret });
        if ret != u64::MAX {
            self.boundary("mmap");
        }
        ret
    }

    pub fn sys_munmap(&mut self, addr: u64, len: u64) -> i32 {
        self.counters.munmap_calls += 1;
        if addr % self.page_size != 0 || len == 0 {
            self.log(Ev::Munmap { addr, len, ret: -1, own: 0, exact: false });
            return -1;
        }
        let end = addr.saturating_add(self.page_up(len));
        // exact = the range is exactly one whole region
        let exact = matches!(self.regions.get(&addr), Some(r) if r.end == end);
        if exact {
            // fast path; a never-written injector mapping given straight back is a "rejected
            // placement": verified here, then kept out of the stored log (still digested)
            let r = self.regions.remove(&addr).unwrap();
            let own = own_bit(r.owner);
            let pristine_injector = r.owner == Owner::Injector && r.data.is_none();
            let ev = Ev::Munmap { addr, len, ret: 0, own, exact: true };
            if pristine_injector && self.compact_failed_mmap {
                if let Some(Ev::Mmap { ret, .. }) = self.events.last() {
                    if *ret == addr {
                        self.events.pop();
                        self.counters.rejected_pairs += 1;
                        let keep = std::mem::take(&mut self.events);
                        self.log(ev);
                        self.events = keep;
                        return 0;
                    }
                }
            }
            self.log(ev);
            self.boundary("munmap");
            return 0;
        }
        self.split_at(addr);
        self.split_at(end);
        let keys: Vec<u64> = self.regions.range(addr..end).map(|(k, _)| *k).collect();
        let mut own = 0u8;
        for k in keys {
            let r = self.regions.remove(&k).unwrap();
            own |= own_bit(r.owner);
        }
        self.log(Ev::Munmap { addr, len, ret: 0, own, exact });
        self.boundary("munmap");
        0
    }

    pub fn sys_mprotect(&mut self, addr: u64, len: u64, prot: i32) -> i32 {
        self.sys_mprotect_opt(addr, len, prot, true)
    }

    /// `faultable = false`: used by the mach_vm_protect shim (no failures are injected there: the
    /// macOS path ignores the kern_return_t and nothing is claimed about that)
    pub fn sys_mprotect_opt(&mut self, addr: u64, len: u64, prot: i32, faultable: bool) -> i32 {
        let idx = self.counters.mprotect_calls;
        if faultable {
            self.counters.mprotect_calls += 1;
        }
        let mut ret = 0;
        let denied = faultable && self.policy.mprotect_deny.iter().any(|(lo, hi)| addr < *hi && addr.saturating_add(len) > *lo);
        let immutable = self.policy.immutable.iter().any(|(lo, hi)| addr < *hi && addr.saturating_add(self.page_up(len.max(1))) > *lo);
        if denied || (faultable && self.policy.fail_mprotect.binary_search(&idx).is_ok()) {
            self.counters.mprotect_injected_fail += 1;
            ret = -1;
        } else if immutable {
            // not an injected fault: the layout contains a page nobody can re-protect
            self.counters.mprotect_on_immutable += 1;
            ret = -1;
        } else if addr % self.page_size != 0 {
            ret = -1;
        } else {
            let end = addr.saturating_add(self.page_up(len));
            // whole range must be mapped
            let mut cur = addr;
            while cur < end {
                match self.region_at(cur) {
                    Some((_, r)) => cur = r.end,
                    None => {
                        ret = -1;
                        break;
                    }
                }
            }
            if ret == 0 {
                self.split_at(addr);
                self.split_at(end);
                for (_, r) in self.regions.range_mut(addr..end) {
                    r.prot = prot;
                }
            }
        }
        self.log(Ev::Mprotect { addr, len, prot, ret });
        self.boundary("mprotect");
        ret
    }

    /// Access check + byte fetch without logging (used by the interpreters and oracles).
    pub fn peek(&self, addr: u64, len: usize) -> Option<Vec<u8>> {
        let mut out = Vec::with_capacity(len);
        let mut cur = addr;
        let end = addr.checked_add(len as u64)?;
        while cur < end {
            let (s, r) = self.region_at(cur)?;
            let upto = r.end.min(end);
            match &r.data {
                Some(d) => out.extend_from_slice(&d[(cur - s) as usize..(upto - s) as usize]),
                None => out.extend(std::iter::repeat(0u8).take((upto - cur) as usize)),
            }
            cur = upto;
        }
        Some(out)
    }

    pub fn prot_at(&self, addr: u64) -> Option<i32> {
        self.region_at(addr).map(|(_, r)| r.prot)
    }

    /// Harness-side poke (set-up), no event, no protection check.
    pub fn poke(&mut self, addr: u64, bytes: &[u8]) {
        for (i, b) in bytes.iter().enumerate() {
            let a = addr + i as u64;
            let s = self.region_at(a).map(|(s, _)| s).expect("poke unmapped");
            let r = self.regions.get_mut(&s).unwrap();
            r.data.as_mut().expect("poke into dataless region")[(a - s) as usize] = *b;
        }
    }

    fn check_access(&self, addr: u64, len: u64, need: i32) -> Result<(), u64> {
        if len == 0 {
            return Ok(());
        }
        let end = match addr.checked_add(len) {
            Some(e) => e,
            None => return Err(addr),
        };
        let mut cur = addr;
        while cur < end {
            match self.region_at(cur) {
                Some((_, r)) if r.prot & need == need => cur = r.end,
                _ => return Err(cur),
            }
        }
        Ok(())
    }

    pub fn mem_read(&mut self, addr: u64, len: usize) -> Result<Vec<u8>, SimSegv> {
        self.counters.reads += 1;
        if let Err(a) = self.check_access(addr, len as u64, PROT_R) {
            self.counters.segv += 1;
            self.log(Ev::Segv { addr: a, write: false });
            return Err(SimSegv { addr: a, write: false });
        }
        self.log(Ev::Read { addr, len: len as u64 });
        Ok(self.peek(addr, len).unwrap())
    }

    pub fn mem_write(&mut self, addr: u64, bytes: &[u8]) -> Result<(), SimSegv> {
        self.counters.writes += 1;
        // bytes before the faulting one are written first, as a real memcpy would
        let bad = self.check_access(addr, bytes.len() as u64, PROT_W).err();
        let ok_len = match bad {
            Some(a) => (a - addr) as usize,
            None => bytes.len(),
        };
        let mut own = 0u8;
        for i in 0..ok_len {
            let a = addr + i as u64;
            let s = self.region_at(a).map(|(s, _)| s).unwrap();
            let r = self.regions.get_mut(&s).unwrap();
            own |= own_bit(r.owner);
            if r.data.is_none() && r.owner == Owner::Injector {
                // anonymous memory is zero-filled; allocate lazily
                r.data = Some(vec![0u8; (r.end - s) as usize]);
            }
            if let Some(d) = r.data.as_mut() {
                d[(a - s) as usize] = bytes[i];
            }
        }
        if ok_len > 0 {
            self.log(Ev::Write { addr, bytes: bytes[..ok_len].to_vec(), own });
        }
        if let Some(a) = bad {
            self.counters.segv += 1;
            self.log(Ev::Segv { addr: a, write: true });
            return Err(SimSegv { addr: a, write: true });
        }
        Ok(())
    }

    /// A write through /proc/self/mem: page protections are ignored (FOLL_FORCE) for private
    /// mappings; pages whose protection "can never be changed" (`policy.mprotect_deny`, the model
    /// of a read-only shared file mapping) and unmapped or foreign PROT_NONE pages refuse.  Returns
    /// the number of bytes stored (a short count when a later page refuses).
    pub fn mem_write_forced(&mut self, addr: u64, bytes: &[u8]) -> usize {
        self.counters.writes += 1;
        let mut own = 0u8;
        let mut n = 0usize;
        for (i, b) in bytes.iter().enumerate() {
            let a = addr + i as u64;
            let denied = self.policy.mprotect_deny.iter().chain(self.policy.immutable.iter()).any(|(lo, hi)| a >= *lo && a < *hi);
            let s = match self.region_at(a) {
                Some((s, r)) if !denied && !(r.owner == Owner::Foreign && r.prot == 0) => s,
                _ => break,
            };
            let r = self.regions.get_mut(&s).unwrap();
            own |= own_bit(r.owner);
            if r.data.is_none() && r.owner == Owner::Injector {
                r.data = Some(vec![0u8; (r.end - s) as usize]);
            }
            if let Some(d) = r.data.as_mut() {
                d[(a - s) as usize] = *b;
            }
            n += 1;
        }
        if n > 0 {
            self.log(Ev::Write { addr, bytes: bytes[..n].to_vec(), own });
        }
        n
    }

    /// The text of /proc/self/maps for the simulated address space.
    pub fn proc_maps(&self) -> String {
        let mut out = String::new();
        for (s, r) in &self.regions {
            let p = r.prot;
            let perms = format!("{}{}{}p", if p & PROT_R != 0 { 'r' } else { '-' }, if p & PROT_W != 0 { 'w' } else { '-' }, if p & PROT_X != 0 { 'x' } else { '-' });
            let path = if r.owner == Owner::Text { "                  /sim/text" } else { "" };
            out.push_str(&format!("{:08x}-{:08x} {} 00000000 00:00 0{}\n", s, r.end, perms, path));
        }
        out
    }

    pub fn flush(&mut self, start: u64, end: u64, kind: u8) {
        self.counters.flushes += 1;
        self.log(Ev::Flush { start, end, kind });
        self.boundary("flush");
    }

    pub fn barrier(&mut self) {
        self.counters.barriers += 1;
        self.log(Ev::Barrier);
    }

    pub fn jit_wp(&mut self, v: i32) {
        self.log(Ev::JitWp(v));
    }

    pub fn log_remap(&mut self, src: u64, dst: u64, len: u64, overwrite: bool) {
        self.log(Ev::Remap { src, dst, len, overwrite });
    }

    /// All regions owned by the injector (start, end).
    pub fn injector_regions(&self) -> Vec<(u64, u64)> {
        self.regions.iter().filter(|(_, r)| r.owner == Owner::Injector).map(|(s, r)| (*s, r.end)).collect()
    }
    pub fn alias_regions(&self) -> Vec<(u64, u64)> {
        self.regions.iter().filter(|(_, r)| r.owner == Owner::Alias).map(|(s, r)| (*s, r.end)).collect()
    }
}

thread_local! {
    static WORLD: RefCell<Option<World>> = const { RefCell::new(None) };
}

pub fn install_world(w: World) {
    WORLD.with(|c| *c.borrow_mut() = Some(w));
}

pub fn take_world() -> Option<World> {
    WORLD.with(|c| c.borrow_mut().take())
}

pub fn with_world<R>(f: impl FnOnce(&mut World) -> R) -> R {
    WORLD.with(|c| {
        let mut b = c.borrow_mut();
        let w = b.as_mut().expect("simos: no world installed on this thread");
        f(w)
    })
}

pub fn barrier(_what: &str) {
    with_world(|w| w.barrier());
}
