//! simos — the simulated operating system / address space the transplanted injector runs against.
//! See /verif/DESIGN.md section 2.2.

pub mod interp;
pub mod rng;
pub mod world;

pub use world::{with_world, SimSegv};

#[macro_export]
macro_rules! sim_asm {
    ($($t:tt)*) => {
        $crate::world::barrier(stringify!($($t)*))
    };
}

/// A simulated SIGSEGV.  Normally a typed panic; when the thread is already unwinding (the fault
/// happens inside a destructor) a second panic would abort the simulator, so the fault is left
/// pending in the world for the executor to report.
fn raise(s: SimSegv) {
    if std::thread::panicking() {
        world::with_world(|w| {
            if w.pending_segv.is_none() {
                w.pending_segv = Some(s);
            }
        });
        return;
    }
    std::panic::panic_any(s)
}

/// `std::slice::from_raw_parts` on a simulated address: a snapshot of the bytes as they are now
/// (read through the simulated address space, so an unreadable range is a simulated SIGSEGV). The
/// copy is leaked; code that expects to see later writes through the slice would not, but every
/// use met so far reads it at once (comparisons, copies).
pub unsafe fn slice_from_raw_parts<'a, T: Copy>(p: *const T, n: usize) -> &'a [T] {
    if world::is_host(p as u64) || n == 0 {
        return std::slice::from_raw_parts(p, n);
    }
    let bytes = n * std::mem::size_of::<T>();
    let data = match world::with_world(|w| w.mem_read(p as u64, bytes)) {
        Ok(v) => v,
        Err(sg) => {
            raise(sg);
            vec![0u8; bytes]
        }
    };
    let mut out: Vec<T> = Vec::with_capacity(n);
    std::ptr::copy_nonoverlapping(data.as_ptr(), out.as_mut_ptr() as *mut u8, bytes);
    out.set_len(n);
    Box::leak(out.into_boxed_slice())
}

/// Replacement for `std::ptr` inside the transplanted crate.
pub mod ptr {
    pub use std::ptr::*;

    use crate::world::{is_host, with_world};

    unsafe fn sim_read(addr: u64, n: usize) -> Vec<u8> {
        match with_world(|w| w.mem_read(addr, n)) {
            Ok(v) => v,
            Err(s) => {
                crate::raise(s);
                vec![0u8; n]
            }
        }
    }
    unsafe fn sim_write(addr: u64, bytes: &[u8]) {
        if let Err(s) = with_world(|w| w.mem_write(addr, bytes)) {
            crate::raise(s)
        }
    }

    pub unsafe fn copy_nonoverlapping<T>(src: *const T, dst: *mut T, count: usize) {
        let n = count * std::mem::size_of::<T>();
        let (hs, hd) = (is_host(src as u64), is_host(dst as u64));
        if n == 0 || (hs && hd) {
            return std::ptr::copy_nonoverlapping(src, dst, count);
        }
        let bytes: Vec<u8> =
            if hs { std::slice::from_raw_parts(src as *const u8, n).to_vec() } else { sim_read(src as u64, n) };
        if hd {
            std::ptr::copy_nonoverlapping(bytes.as_ptr(), dst as *mut u8, n);
        } else {
            sim_write(dst as u64, &bytes);
        }
    }

    pub unsafe fn copy<T>(src: *const T, dst: *mut T, count: usize) {
        copy_nonoverlapping(src, dst, count)
    }

    pub unsafe fn write_bytes<T>(dst: *mut T, val: u8, count: usize) {
        let n = count * std::mem::size_of::<T>();
        if is_host(dst as u64) {
            return std::ptr::write_bytes(dst, val, count);
        }
        sim_write(dst as u64, &vec![val; n]);
    }

    pub unsafe fn write<T>(dst: *mut T, v: T) {
        if is_host(dst as u64) {
            return std::ptr::write(dst, v);
        }
        let n = std::mem::size_of::<T>();
        let bytes = std::slice::from_raw_parts(&v as *const T as *const u8, n).to_vec();
        std::mem::forget(v);
        sim_write(dst as u64, &bytes);
    }
    pub unsafe fn write_unaligned<T>(dst: *mut T, v: T) {
        write(dst, v)
    }
    pub unsafe fn write_volatile<T>(dst: *mut T, v: T) {
        write(dst, v)
    }

    pub unsafe fn read<T>(src: *const T) -> T {
        if is_host(src as u64) {
            return std::ptr::read(src);
        }
        let n = std::mem::size_of::<T>();
        let bytes = sim_read(src as u64, n);
        let mut out = std::mem::MaybeUninit::<T>::uninit();
        std::ptr::copy_nonoverlapping(bytes.as_ptr(), out.as_mut_ptr() as *mut u8, n);
        out.assume_init()
    }
    pub unsafe fn read_unaligned<T>(src: *const T) -> T {
        read(src)
    }
    pub unsafe fn read_volatile<T>(src: *const T) -> T {
        read(src)
    }
}

/// Method forms of raw-pointer reads and writes (`p.read_unaligned()`, `p.write_volatile(v)`, ...):
/// the generator renames them to these, which go through the simulated address space.
pub trait SimPtrConst<T> {
    /// # Safety
    /// as `std::ptr::read_unaligned`
    unsafe fn sim_read(self) -> T;
}
impl<T> SimPtrConst<T> for *const T {
    unsafe fn sim_read(self) -> T {
        ptr::read(self)
    }
}
impl<T> SimPtrConst<T> for *mut T {
    unsafe fn sim_read(self) -> T {
        ptr::read(self as *const T)
    }
}
pub trait SimPtrMut<T> {
    /// # Safety
    /// as `std::ptr::write_unaligned`
    unsafe fn sim_write(self, v: T);
}
impl<T> SimPtrMut<T> for *mut T {
    unsafe fn sim_write(self, v: T) {
        ptr::write(self, v)
    }
}

/// Replacement for the `libc` crate inside the transplanted crate: the real crate re-exported,
/// with the memory-management calls going to the simulated kernel.
#[allow(non_camel_case_types)]
pub mod libc {
    pub use ::libc::*;

    use crate::world::with_world;

    pub const MAP_JIT: c_int = 0x0800;
    pub type mach_vm_address_t = u64;
    pub type vm_prot_t = c_int;
    pub const VM_PROT_READ: vm_prot_t = 1;
    pub const VM_PROT_WRITE: vm_prot_t = 2;
    pub const VM_PROT_EXECUTE: vm_prot_t = 4;

    pub unsafe fn mmap(addr: *mut c_void, len: size_t, prot: c_int, flags: c_int, _fd: c_int, _off: off_t) -> *mut c_void {
        let r = with_world(|w| w.sys_mmap(addr as u64, len as u64, prot, flags));
        if r == u64::MAX {
            ::libc::MAP_FAILED
        } else {
            r as *mut c_void
        }
    }
    pub unsafe fn munmap(addr: *mut c_void, len: size_t) -> c_int {
        with_world(|w| w.sys_munmap(addr as u64, len as u64))
    }
    pub unsafe fn mprotect(addr: *mut c_void, len: size_t, prot: c_int) -> c_int {
        with_world(|w| w.sys_mprotect(addr as u64, len as u64, prot))
    }
    pub unsafe fn sysconf(name: c_int) -> c_long {
        if name == ::libc::_SC_PAGESIZE {
            with_world(|w| w.page_size as c_long)
        } else {
            ::libc::sysconf(name)
        }
    }
    pub unsafe fn pthread_jit_write_protect_np(v: c_int) {
        with_world(|w| w.jit_wp(v))
    }
}

/// The slice of `std::fs` (+ `std::os::unix::fs::FileExt`) through which code can reach the
/// address space behind the back of mmap/mprotect: `/proc/self/maps` shows the simulated address
/// space, `/proc/self/mem` reads and writes it; every other path is the real file system.
pub mod fs {
    use crate::world::with_world;
    use std::io::{self, Read, Seek, SeekFrom, Write};
    use std::path::Path;
    pub use std::fs::{create_dir, create_dir_all, metadata, read_dir, remove_file, DirEntry, Metadata};

    enum Kind {
        Real(std::fs::File),
        Maps(io::Cursor<Vec<u8>>),
        Mem { pos: u64, writable: bool },
    }
    pub struct File {
        kind: Kind,
    }

    fn special(p: &Path) -> Option<&'static str> {
        match p.to_str() {
            Some("/proc/self/maps") => Some("maps"),
            Some("/proc/self/mem") => Some("mem"),
            _ => None,
        }
    }

    impl File {
        pub fn open<P: AsRef<Path>>(p: P) -> io::Result<File> {
            match special(p.as_ref()) {
                Some("maps") => Ok(File { kind: Kind::Maps(io::Cursor::new(with_world(|w| w.proc_maps()).into_bytes())) }),
                Some(_) => Ok(File { kind: Kind::Mem { pos: 0, writable: false } }),
                None => std::fs::File::open(p).map(|f| File { kind: Kind::Real(f) }),
            }
        }
        pub fn create<P: AsRef<Path>>(p: P) -> io::Result<File> {
            std::fs::File::create(p).map(|f| File { kind: Kind::Real(f) })
        }
        pub fn options() -> OpenOptions {
            OpenOptions::new()
        }
    }

    #[derive(Clone, Debug)]
    pub struct OpenOptions {
        inner: std::fs::OpenOptions,
        write: bool,
    }
    impl Default for OpenOptions {
        fn default() -> Self {
            Self::new()
        }
    }
    impl OpenOptions {
        pub fn new() -> Self {
            OpenOptions { inner: std::fs::OpenOptions::new(), write: false }
        }
        pub fn read(&mut self, v: bool) -> &mut Self {
            self.inner.read(v);
            self
        }
        pub fn write(&mut self, v: bool) -> &mut Self {
            self.inner.write(v);
            self.write = v;
            self
        }
        pub fn append(&mut self, v: bool) -> &mut Self {
            self.inner.append(v);
            self
        }
        pub fn truncate(&mut self, v: bool) -> &mut Self {
            self.inner.truncate(v);
            self
        }
        pub fn create(&mut self, v: bool) -> &mut Self {
            self.inner.create(v);
            self
        }
        pub fn open<P: AsRef<Path>>(&self, p: P) -> io::Result<File> {
            match special(p.as_ref()) {
                Some("maps") => File::open(p),
                Some(_) => Ok(File { kind: Kind::Mem { pos: 0, writable: self.write } }),
                None => self.inner.open(p).map(|f| File { kind: Kind::Real(f) }),
            }
        }
    }

    fn mem_read(off: u64, buf: &mut [u8]) -> io::Result<usize> {
        // as far as the bytes are mapped (protections ignored, like the kernel's access_remote_vm)
        let mut n = 0;
        with_world(|w| {
            for (i, b) in buf.iter_mut().enumerate() {
                match w.region_at(off + i as u64) {
                    Some(_) => match w.peek(off + i as u64, 1).map(|v| v[0]) {
                        Some(v) => {
                            *b = v;
                            n += 1;
                        }
                        None => break,
                    },
                    None => break,
                }
            }
        });
        if n == 0 && !buf.is_empty() {
            Err(io::Error::from_raw_os_error(5))
        } else {
            Ok(n)
        }
    }
    fn mem_write(off: u64, buf: &[u8]) -> io::Result<usize> {
        let n = with_world(|w| w.mem_write_forced(off, buf));
        if n == 0 && !buf.is_empty() {
            Err(io::Error::from_raw_os_error(5)) // EIO
        } else {
            Ok(n)
        }
    }

    impl Read for File {
        fn read(&mut self, buf: &mut [u8]) -> io::Result<usize> {
            match &mut self.kind {
                Kind::Real(f) => f.read(buf),
                Kind::Maps(c) => c.read(buf),
                Kind::Mem { pos, .. } => {
                    let n = mem_read(*pos, buf)?;
                    *pos += n as u64;
                    Ok(n)
                }
            }
        }
    }
    impl Write for File {
        fn write(&mut self, buf: &[u8]) -> io::Result<usize> {
            match &mut self.kind {
                Kind::Real(f) => f.write(buf),
                Kind::Maps(_) => Err(io::Error::from_raw_os_error(9)),
                Kind::Mem { pos, writable } => {
                    if !*writable {
                        return Err(io::Error::from_raw_os_error(9)); // EBADF
                    }
                    let n = mem_write(*pos, buf)?;
                    *pos += n as u64;
                    Ok(n)
                }
            }
        }
        fn flush(&mut self) -> io::Result<()> {
            match &mut self.kind {
                Kind::Real(f) => f.flush(),
                _ => Ok(()),
            }
        }
    }
    impl Seek for File {
        fn seek(&mut self, to: SeekFrom) -> io::Result<u64> {
            match &mut self.kind {
                Kind::Real(f) => f.seek(to),
                Kind::Maps(c) => c.seek(to),
                Kind::Mem { pos, .. } => {
                    *pos = match to {
                        SeekFrom::Start(x) => x,
                        SeekFrom::Current(d) => (*pos as i64).wrapping_add(d) as u64,
                        SeekFrom::End(d) => (u64::MAX as i64).wrapping_add(d) as u64,
                    };
                    Ok(*pos)
                }
            }
        }
    }

    /// `std::os::unix::fs::FileExt`
    pub trait FileExt {
        fn read_at(&self, buf: &mut [u8], offset: u64) -> io::Result<usize>;
        fn write_at(&self, buf: &[u8], offset: u64) -> io::Result<usize>;
        fn read_exact_at(&self, mut buf: &mut [u8], mut offset: u64) -> io::Result<()> {
            while !buf.is_empty() {
                match self.read_at(buf, offset) {
                    Ok(0) => break,
                    Ok(n) => {
                        let tmp = buf;
                        buf = &mut tmp[n..];
                        offset += n as u64;
                    }
                    Err(ref e) if e.kind() == io::ErrorKind::Interrupted => {}
                    Err(e) => return Err(e),
                }
            }
            if !buf.is_empty() {
                Err(io::Error::new(io::ErrorKind::UnexpectedEof, "failed to fill whole buffer"))
            } else {
                Ok(())
            }
        }
        fn write_all_at(&self, mut buf: &[u8], mut offset: u64) -> io::Result<()> {
            while !buf.is_empty() {
                match self.write_at(buf, offset) {
                    Ok(0) => return Err(io::Error::new(io::ErrorKind::WriteZero, "failed to write whole buffer")),
                    Ok(n) => {
                        buf = &buf[n..];
                        offset += n as u64
                    }
                    Err(ref e) if e.kind() == io::ErrorKind::Interrupted => {}
                    Err(e) => return Err(e),
                }
            }
            Ok(())
        }
    }
    impl FileExt for File {
        fn read_at(&self, buf: &mut [u8], offset: u64) -> io::Result<usize> {
            match &self.kind {
                Kind::Real(f) => std::os::unix::fs::FileExt::read_at(f, buf, offset),
                Kind::Maps(c) => {
                    let d = c.get_ref();
                    let o = (offset as usize).min(d.len());
                    let n = buf.len().min(d.len() - o);
                    buf[..n].copy_from_slice(&d[o..o + n]);
                    Ok(n)
                }
                Kind::Mem { .. } => mem_read(offset, buf),
            }
        }
        fn write_at(&self, buf: &[u8], offset: u64) -> io::Result<usize> {
            match &self.kind {
                Kind::Real(f) => std::os::unix::fs::FileExt::write_at(f, buf, offset),
                Kind::Maps(_) => Err(io::Error::from_raw_os_error(9)),
                Kind::Mem { writable, .. } => {
                    if !*writable {
                        return Err(io::Error::from_raw_os_error(9));
                    }
                    mem_write(offset, buf)
                }
            }
        }
    }

    pub fn read_to_string<P: AsRef<Path>>(p: P) -> io::Result<String> {
        let mut s = String::new();
        File::open(p)?.read_to_string(&mut s)?;
        Ok(s)
    }
    pub fn read<P: AsRef<Path>>(p: P) -> io::Result<Vec<u8>> {
        let mut v = Vec::new();
        File::open(p)?.read_to_end(&mut v)?;
        Ok(v)
    }
}

pub mod linuxapi {
    use crate::world::with_world;
    pub unsafe fn __clear_cache(start: *mut u8, end: *mut u8) {
        with_world(|w| w.flush(start as u64, end as u64, 0))
    }
}

pub mod macosapi {
    use crate::world::with_world;
    pub unsafe fn sys_dcache_flush(start: *mut u8, len: usize) {
        with_world(|w| w.flush(start as u64, start as u64 + len as u64, 3))
    }
    pub unsafe fn sys_icache_invalidate(start: *mut u8, len: usize) {
        with_world(|w| w.flush(start as u64, start as u64 + len as u64, 2))
    }
}

#[allow(non_snake_case)]
pub mod winapi {
    use crate::world::with_world;
    use core::ffi::c_void;

    pub const MEM_COMMIT: u32 = 0x1000;
    pub const MEM_RESERVE: u32 = 0x2000;
    pub const PAGE_EXECUTE_READWRITE: u32 = 0x40;
    pub const MEM_RELEASE: u32 = 0x8000;

    /// Windows page protection constant -> rwx bits; None = not a valid protection value
    fn prot_bits(p: u32) -> Option<i32> {
        Some(match p {
            0x01 => 0, // PAGE_NOACCESS
            0x02 => 1, // PAGE_READONLY
            0x04 => 3, // PAGE_READWRITE
            0x08 => 3, // PAGE_WRITECOPY
            0x10 => 4, // PAGE_EXECUTE
            0x20 => 5, // PAGE_EXECUTE_READ
            0x40 => 7, // PAGE_EXECUTE_READWRITE
            0x80 => 7, // PAGE_EXECUTE_WRITECOPY
            _ => return None,
        })
    }
    pub unsafe fn VirtualProtect(addr: *mut c_void, size: usize, new: u32, old: *mut u32) -> i32 {
        let bits = match prot_bits(new) {
            Some(b) => b,
            None => return 0, // ERROR_INVALID_PARAMETER
        };
        if old.is_null() {
            return 0; // ERROR_NOACCESS: lpflOldProtect must be valid
        }
        // lpflOldProtect receives the previous protection of the FIRST page of the range
        let prev = with_world(|w| w.prot_at(addr as u64));
        let r = with_world(|w| w.sys_mprotect(addr as u64, size as u64, bits));
        *old = match prev.unwrap_or(5) & 7 {
            0 => 0x01,
            1 => 0x02,
            3 | 2 => 0x04,
            4 => 0x10,
            5 => 0x20,
            _ => 0x40,
        };
        if r == 0 {
            1
        } else {
            0
        }
    }
    pub unsafe fn VirtualAlloc(addr: *mut c_void, size: usize, ty: u32, prot: u32) -> *mut c_void {
        let bits = match prot_bits(prot) {
            Some(b) => b,
            None => return std::ptr::null_mut(),
        };
        if ty & !(MEM_COMMIT | MEM_RESERVE) != 0 || ty == 0 {
            return std::ptr::null_mut();
        }
        if ty == MEM_COMMIT {
            // committing pages of an existing reservation: may be refused like any request for
            // memory (commit limit), and then the reservation is still there
            let r = with_world(|w| {
                let idx = w.counters.mmap_calls;
                w.counters.mmap_calls += 1;
                if w.policy.fail_mmap_all || w.policy.fail_mmap.binary_search(&idx).is_ok() {
                    w.counters.mmap_injected_fail += 1;
                    w.counters.mmap_failed += 1;
                    return u64::MAX;
                }
                let ps = w.page_size;
                let a0 = addr as u64 & !(ps - 1);
                let a1 = (addr as u64 + size.max(1) as u64 + ps - 1) & !(ps - 1);
                let inside = match w.region_at(a0) {
                    Some((_, r)) => r.owner == crate::world::Owner::Injector && {
                        // the range may span pieces of one allocation (split by earlier commits)
                        let serial = r.serial;
                        let mut cur = a0;
                        let mut ok = true;
                        while cur < a1 {
                            match w.region_at(cur) {
                                Some((_, q)) if q.serial == serial => cur = q.end,
                                _ => {
                                    ok = false;
                                    break;
                                }
                            }
                        }
                        ok
                    },
                    None => false,
                };
                if !inside {
                    w.counters.mmap_failed += 1;
                    return u64::MAX;
                }
                if w.sys_mprotect_opt(a0, a1 - a0, bits, false) != 0 {
                    return u64::MAX;
                }
                a0
            });
            return if r == u64::MAX { std::ptr::null_mut() } else { r as *mut c_void };
        }
        // MEM_RESERVE alone gives inaccessible pages; with MEM_COMMIT they get the protection
        let bits = if ty & MEM_COMMIT == 0 { 0 } else { bits };
        let r = with_world(|w| w.sys_mmap(addr as u64, size as u64, bits, -1));
        if r == u64::MAX {
            std::ptr::null_mut()
        } else {
            r as *mut c_void
        }
    }
    pub unsafe fn VirtualFree(addr: *mut c_void, size: usize, ty: u32) -> i32 {
        // MEM_RELEASE requires size == 0 and addr == allocation base; the whole allocation goes
        if ty != MEM_RELEASE || size != 0 {
            return 0;
        }
        let len = with_world(|w| {
            let first = w.regions.get(&(addr as u64))?;
            if first.owner != crate::world::Owner::Injector {
                return Some(first.end - addr as u64);
            }
            let serial = first.serial;
            // an allocation base is where its serial begins
            if let Some((_, p)) = w.regions.range(..addr as u64).next_back() {
                if p.end == addr as u64 && p.serial == serial && p.owner == first.owner {
                    return None;
                }
            }
            let mut end = first.end;
            while let Some(q) = w.regions.get(&end) {
                if q.serial != serial {
                    break;
                }
                end = q.end;
            }
            Some(end - addr as u64)
        });
        match len {
            Some(l) => {
                with_world(|w| w.sys_munmap(addr as u64, l));
                1
            }
            None => {
                // not an allocation base: record a failed free
                with_world(|w| w.sys_munmap(addr as u64 | 1, 0));
                0
            }
        }
    }
    pub unsafe fn FlushInstructionCache(_p: *mut c_void, base: *const c_void, size: usize) -> i32 {
        with_world(|w| w.flush(base as u64, base as u64 + size as u64, 1));
        1
    }
    pub unsafe fn GetCurrentProcess() -> *mut c_void {
        usize::MAX as *mut c_void
    }
    pub unsafe fn get_page_size() -> usize {
        with_world(|w| w.page_size as usize)
    }
    /// SYSTEM_INFO (64-bit layout): dwPageSize at byte 4, application address range at 8 / 16,
    /// dwNumberOfProcessors at 32, dwAllocationGranularity at 40; 48 bytes in all
    pub unsafe fn GetSystemInfo<T>(info: *mut T) {
        let n = std::mem::size_of::<T>().min(48);
        let mut raw = [0u8; 48];
        let ps = with_world(|w| w.page_size as u32);
        raw[0..2].copy_from_slice(&9u16.to_le_bytes());
        raw[4..8].copy_from_slice(&ps.to_le_bytes());
        raw[8..16].copy_from_slice(&0x10000u64.to_le_bytes());
        raw[16..24].copy_from_slice(&0x7FFF_FFFE_FFFFu64.to_le_bytes());
        raw[24..32].copy_from_slice(&0xFFFFu64.to_le_bytes());
        raw[32..36].copy_from_slice(&16u32.to_le_bytes());
        raw[40..44].copy_from_slice(&0x10000u32.to_le_bytes());
        std::ptr::copy_nonoverlapping(raw.as_ptr(), info as *mut u8, n);
    }
}

/// The slice of the `mach2` crate that `patch_function` (macOS) uses.
#[allow(non_camel_case_types)]
pub mod mach2 {
    pub mod traps {
        pub unsafe fn mach_task_self() -> u32 {
            0x103
        }
    }
    pub mod vm_inherit {
        pub const VM_INHERIT_NONE: u32 = 2;
    }
    pub mod vm_prot {
        pub const VM_PROT_COPY: i32 = 0x10;
    }
    pub mod vm_statistics {
        pub const VM_FLAGS_FIXED: i32 = 0x0;
        pub const VM_FLAGS_ANYWHERE: i32 = 0x1;
        pub const VM_FLAGS_OVERWRITE: i32 = 0x4000;
        pub const VM_FLAGS_RETURN_DATA_ADDR: i32 = 0x100000;
    }
    pub mod vm_page_size {
        use crate::world::with_world;
        /// # Safety
        /// none needed here (the real one reads an extern static)
        pub unsafe fn mach_vm_trunc_page(x: u64) -> u64 {
            with_world(|w| x & !(w.page_size - 1))
        }
        /// # Safety
        /// as above
        pub unsafe fn mach_vm_round_page(x: u64) -> u64 {
            with_world(|w| (x + w.page_size - 1) & !(w.page_size - 1))
        }
    }
    pub mod vm {
        use crate::world::{with_world, Owner};

        /// the pages covering [addr, addr+size) leave the address space
        pub unsafe fn mach_vm_deallocate(_task: u32, addr: u64, size: u64) -> i32 {
            with_world(|w| {
                let ps = w.page_size;
                let a0 = addr & !(ps - 1);
                let a1 = (addr + size + ps - 1) & !(ps - 1);
                if a1 > a0 && w.sys_munmap(a0, a1 - a0) != 0 {
                    return 1;
                }
                0
            })
        }

        /// Model: ANYWHERE -> a private copy ("alias") of the source pages at a fresh address;
        /// OVERWRITE -> the pages covering the target range are replaced by the source pages.
        #[allow(clippy::too_many_arguments)]
        pub unsafe fn mach_vm_remap(
            _target_task: u32,
            target_address: *mut u64,
            size: u64,
            _mask: u64,
            flags: i32,
            _src_task: u32,
            src_address: u64,
            _copy: u32,
            cur: *mut i32,
            max: *mut i32,
            _inherit: u32,
        ) -> i32 {
            let overwrite = flags & super::vm_statistics::VM_FLAGS_OVERWRITE != 0;
            // XNU vm_map_remap: with VM_FLAGS_RETURN_DATA_ADDR the mapping covers every page the
            // data [addr, addr+size) touches and the data's own address is returned; without it
            // the addresses are truncated to their pages and round_page(size) bytes are mapped
            let rda = flags & super::vm_statistics::VM_FLAGS_RETURN_DATA_ADDR != 0;
            let r = with_world(|w| {
                let ps = w.page_size;
                let s0 = src_address & !(ps - 1);
                let s1 = if rda { (src_address + size + ps - 1) & !(ps - 1) } else { s0 + ((size + ps - 1) & !(ps - 1)) };
                let data = match w.peek(s0, (s1 - s0) as usize) {
                    Some(d) => d,
                    None => return Err(1),
                };
                if !overwrite {
                    let prot = w.prot_at(src_address).unwrap_or(0);
                    let base = {
                        // place the alias top-down
                        let save = w.policy.fallback.clone();
                        w.policy.fallback.clear();
                        let mut hi = w.policy.topdown_base & !(ps - 1);
                        let len = s1 - s0;
                        let mut found = None;
                        while hi > len + w.policy.mmap_min_addr {
                            if w.is_free(hi - len, hi) {
                                found = Some(hi - len);
                                break;
                            }
                            hi -= ps;
                        }
                        w.policy.fallback = save;
                        match found {
                            Some(b) => b,
                            None => return Err(3),
                        }
                    };
                    w.map_fixed(base, s1 - s0, prot, Owner::Alias, Some(data));
                    let ret = base + if rda { src_address - s0 } else { 0 };
                    w.log_remap(src_address, ret, size, false);
                    Ok((ret, prot))
                } else {
                    let t = *target_address;
                    let t0 = t & !(ps - 1);
                    // the pages covering the target are replaced by the pages covering the source
                    let prot = w.prot_at(src_address).unwrap_or(0);
                    let n = (s1 - s0).min(data.len() as u64) as usize;
                    // content replacement is a modification of the target's executable bytes
                    let old = match w.peek(t0, n) {
                        Some(o) => o,
                        None => return Err(1),
                    };
                    w.log_remap(src_address, t, size, true);
                    // log a Write for the span of differing bytes (so ledger oracles see it)
                    let mut lo = None;
                    let mut hi = 0usize;
                    for i in 0..n {
                        if old[i] != data[i] {
                            if lo.is_none() {
                                lo = Some(i);
                            }
                            hi = i + 1;
                        }
                    }
                    if let Some(lo) = lo {
                        // temporarily writable (the pages may lie inside a larger region)
                        w.split_at(t0);
                        w.split_at(t0 + n as u64);
                        let saved: Vec<(u64, i32)> = w.regions.range(t0..t0 + n as u64).map(|(k, r)| (*k, r.prot)).collect();
                        for (_, r) in w.regions.range_mut(t0..t0 + n as u64) {
                            r.prot |= crate::world::PROT_W;
                        }
                        let _ = w.mem_write(t0 + lo as u64, &data[lo..hi]);
                        for (k, p) in saved {
                            if let Some(r) = w.regions.get_mut(&k) {
                                r.prot = p;
                            }
                        }
                    }
                    Ok((if rda { t } else { t0 }, prot))
                }
            });
            match r {
                Ok((addr, prot)) => {
                    *target_address = addr;
                    if !cur.is_null() {
                        *cur = prot;
                    }
                    if !max.is_null() {
                        *max = 7;
                    }
                    0
                }
                Err(e) => e,
            }
        }

        pub unsafe fn mach_vm_protect(_task: u32, addr: u64, size: u64, _set_max: u32, prot: i32) -> i32 {
            with_world(|w| {
                let ps = w.page_size;
                let a0 = addr & !(ps - 1);
                let a1 = (addr + size + ps - 1) & !(ps - 1);
                let r = w.sys_mprotect_opt(a0, a1 - a0, prot & 7, false);
                if r == 0 {
                    0
                } else {
                    2
                }
            })
        }
    }
}
