//! Engine N, family "cycles" (C12): up to 10^5 create / install / drop cycles in one process,
//! 1-6 installs per cycle, kinds mixed, targets repeated, some cycles ending by panic, some
//! installs refused; the OS-call ledger is judged per cycle, the executable anonymous mappings
//! before the first and after the last cycle (and every 4096 cycles) must be identical.

use crate::arena;
use crate::contain::*;
use crate::interpose::{self, NEv};
use crate::synth::{real_f0, real_t0, real_t1};
use injectorpp::interface::injector::*;
use serde::{Deserialize, Serialize};
use serde_json::{json, Value};
use simos::rng::Rng;
use std::hint::black_box;
use std::panic::{catch_unwind, AssertUnwindSafe};

#[derive(Serialize, Deserialize, Clone, Debug, PartialEq)]
pub struct CycScenario {
    pub engine: String,
    pub family: String,
    pub profile: String,
    pub variant: String,
    pub seed: u64,
    pub index: u64,
    pub cycles: u64,
    pub arena: u64,
    /// every cycle's operations are drawn from this seed (cycle i uses cycle_seed ^ i)
    pub cycle_seed: u64,
    pub classes: Vec<String>,
}

pub fn generate(profile: &str, seed: u64, index: u64) -> CycScenario {
    let mut rng = Rng::new(simos::rng::scenario_seed(seed, &format!("N/cycles/{profile}"), index));
    // scenario 0 of a batch is the long one
    let cycles = if index % 64 == 48 { 100_000 } else if index % 16 == 0 { 20_000 } else { 200 + rng.below(1800) };
    let arena = *rng.pick(&[0x1000_0000_0000u64, 0x20000, 0x7000_1000_0000, 0x5555_3000_0000]) + rng.below(64) * 0x1000;
    CycScenario {
        engine: "N".into(),
        family: "cycles".into(),
        profile: profile.into(),
        variant: "x86_64-linux-native".into(),
        seed,
        index,
        cycles,
        arena,
        cycle_seed: rng.next_u64(),
        classes: vec![format!("cycles-{}", if cycles > 5000 { "long" } else { "short" }), format!("arena-{:x}", arena >> 40)],
    }
}

struct Injected;

fn anon_pages() -> Vec<(u64, u64)> {
    let mut v: Vec<(u64, u64)> = Vec::new();
    for (s, e, _) in crate::snap::anon_exec_maps() {
        match v.last_mut() {
            Some((_, le)) if *le == s => *le = e,
            _ => v.push((s, e)),
        }
    }
    v
}

pub fn execute(sc: &CycScenario, sh: &Shared) -> Value {
    let viol: std::cell::RefCell<Vec<Value>> = std::cell::RefCell::new(Vec::new());
    let v = |tag: &str, detail: String| {
        let mut viol = viol.borrow_mut();
        if viol.len() < 8 && !viol.iter().any(|x| x["tag"] == tag) {
            viol.push(json!({"tag": tag, "props": ["C12"], "detail": detail}));
        }
    };
    let cycles = std::env::var("VERIF_CYCLES").ok().and_then(|s| s.parse::<u64>().ok()).unwrap_or(sc.cycles);
    // synthetic targets: 6 functions at 16-byte pitch, one of them straddling a page
    if !arena::map_rw(sc.arena, 2 * 4096) {
        return json!({"skipped": "arena unavailable"});
    }
    let addrs: Vec<u64> = vec![sc.arena + 0x10, sc.arena + 0x20, sc.arena + 0x30, sc.arena + 0xFFD, sc.arena + 0x1010, sc.arena + 0x1020];
    for (i, a) in addrs.iter().enumerate() {
        arena::write_const_fn(*a, 0x100 + i as u32);
    }
    arena::seal_rx(sc.arena, 2 * 4096);
    // one throw-away cycle so that lazily created process state (TLS, allocator arenas) exists
    {
        let mut inj = InjectorPP::new();
        inj.when_called(injectorpp::func!(fn (real_t0)() -> u32)).will_execute_raw(injectorpp::func!(fn (real_f0)() -> u32));
    }
    let before = anon_pages();
    let mut digest = 0xCCu64;
    let mut installs = 0u64;
    let mut refused = 0u64;
    let mut panicked_cycles = 0u64;
    let mut ev_total = 0u64;
    unsafe { libc::alarm(1500) };
    for c in 0..cycles {
        sh.note(PH_OTHER, c, 0, 0);
        let mut rng = Rng::new(sc.cycle_seed ^ c.wrapping_mul(0x9E37_79B9_7F4A_7C15));
        let n = 1 + rng.below(6);
        let exit_panic = rng.chance(1, 7);
        let mark = interpose::ledger_len();
        interpose::arm(true);
        let mut ok_installs = 0u64;
        let mut refusals = 0u64;
        let r = catch_unwind(AssertUnwindSafe(|| {
            let mut inj = InjectorPP::new();
            for _ in 0..n {
                let t = rng.below(addrs.len() as u64 + 2) as usize; // repetition is likely
                let kind = rng.below(6);
                let res = catch_unwind(AssertUnwindSafe(|| unsafe {
                    if t >= addrs.len() {
                        let tp = if t == addrs.len() { injectorpp::func!(fn (real_t0)() -> u32) } else { injectorpp::func!(fn (real_t1)() -> u32) };
                        match kind {
                            0 => inj.when_called(tp).will_execute_raw(injectorpp::closure!(|| 7u32, fn() -> u32)),
                            1 => inj.when_called(tp).will_execute(injectorpp::fake!(func_type: fn() -> u32, returns: 8)),
                            2 => inj.when_called(tp).will_execute_raw(injectorpp::closure!(|| 7u64, fn() -> u64)), // refused
                            _ => inj.when_called(tp).will_execute_raw(injectorpp::func!(fn (real_f0)() -> u32)),
                        }
                    } else {
                        let a = addrs[t] as *const ();
                        let f = addrs[(t + 1 + rng.below(4) as usize) % addrs.len()] as *const ();
                        match kind {
                            0 => inj.when_called(FuncPtr::new(a, "fn() -> bool")).will_return_boolean(true),
                            1 => inj.when_called_unchecked(FuncPtr::new(a, "")).will_execute_raw_unchecked(FuncPtr::new(f, "")),
                            2 => inj.when_called(FuncPtr::new(a, "fn() -> u32")).will_execute_raw(FuncPtr::new(f, "fn() -> u64")), // refused
                            3 => inj.when_called(FuncPtr::new(a, "fn() -> u32")).will_execute((FuncPtr::new(f, "fn() -> u32"), CallCountVerifier::Dummy)),
                            _ => inj.when_called(FuncPtr::new(a, "fn() -> u32")).will_execute_raw(FuncPtr::new(f, "fn() -> u32")),
                        }
                    }
                }));
                match res {
                    Ok(()) => ok_installs += 1,
                    Err(_) => refusals += 1,
                }
            }
            if exit_panic {
                std::panic::panic_any(Injected);
            }
        }));
        interpose::arm(false);
        installs += ok_installs;
        refused += refusals;
        if r.is_err() {
            panicked_cycles += 1;
        }
        // ---- ledger of this cycle
        let ledger = interpose::ledger_since(mark);
        ev_total += ledger.len() as u64;
        let mut live: Vec<(u64, u64)> = Vec::new();
        let mut mapped_total = 0u64;
        for ev in &ledger {
            match ev {
                NEv::Mmap { ret, len, prot, .. } if *ret != u64::MAX && prot & libc::PROT_EXEC != 0 => {
                    live.push((*ret, *len));
                    mapped_total += 1;
                }
                NEv::Munmap { addr, len, ret } => {
                    if *ret != 0 {
                        v("munmap-failed", format!("cycle {c}: munmap({:#x}, {}) failed", addr, len));
                    }
                    match live.iter().position(|(a, l)| a == addr && l == len) {
                        Some(p) => {
                            live.remove(p);
                        }
                        None => v("munmap-of-range-not-mapped-by-the-injector", format!("cycle {c}: munmap({:#x}, {}) names no live trampoline mapping of this cycle (freed twice, or foreign)", addr, len)),
                    }
                }
                _ => {}
            }
        }
        if !live.is_empty() {
            v("trampoline-mapping-leaked", format!("cycle {c} ({} install(s) ok, {} refused, exit {}): {} of {} executable mapping(s) made in this cycle were never unmapped: {:x?}", ok_installs, refusals, if exit_panic { "panic" } else { "drop" }, live.len(), mapped_total, &live[..live.len().min(3)]));
        }
        digest = digest.rotate_left(5) ^ (ok_installs * 31 + refusals * 7 + mapped_total);
        // drop the stored ledger so that memory stays flat over 10^5 cycles
        let _ = interpose::take_ledger();
        // behaviour is original after every cycle
        if c % 64 == 0 || c + 1 == cycles {
            for (i, a) in addrs.iter().enumerate() {
                if arena::call_u32(*a) != 0x100 + i as u32 {
                    v("not-restored-after-scope-exit", format!("cycle {c}: synthetic function #{i} does not return its constant"));
                }
            }
            if black_box(real_t0 as fn() -> u32)() != 1000 || black_box(real_t1 as fn() -> u32)() != 1001 {
                v("not-restored-after-scope-exit", format!("cycle {c}: a real function does not return its constant"));
            }
        }
        if c % 4096 == 4095 {
            let now = anon_pages();
            if now != before {
                v("anonymous-executable-mappings-differ", format!("after {} cycles: {:x?} vs {:x?} before the first", c + 1, now, before));
            }
        }
        if !viol.borrow().is_empty() {
            break;
        }
    }
    unsafe { libc::alarm(0) };
    let after = anon_pages();
    if after != before {
        v("anonymous-executable-mappings-differ", format!("after the last cycle: {:x?} vs {:x?} before the first", after, before));
    }
    sh.note(PH_DONE, 0, 0, 0);
    json!({
        "violations": viol.into_inner(),
        "digest": format!("{:016x}", digest),
        "probes": {"cycles_run": cycles, "cycles_ended_by_panic": panicked_cycles},
        "faults": {"refused_install_in_cycle": refused, "injected_panic_at_scope_exit": panicked_cycles},
        "events": ev_total,
        "calls": 0,
        "installs_ok": installs,
        "installs_refused": refused,
    })
}
