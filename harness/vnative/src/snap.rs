//! Observation of executable memory: /proc/self/maps + byte copies.

#[derive(Clone, Debug)]
pub struct Map {
    pub start: u64,
    pub end: u64,
    pub perms: String,
    pub name: String,
}

pub fn maps() -> Vec<Map> {
    let text = std::fs::read_to_string("/proc/self/maps").unwrap_or_default();
    let mut v = Vec::new();
    for line in text.lines() {
        let mut it = line.split_whitespace();
        let range = it.next().unwrap_or("");
        let perms = it.next().unwrap_or("").to_string();
        let _off = it.next();
        let _dev = it.next();
        let _ino = it.next();
        let name = it.next().unwrap_or("").to_string();
        let mut r = range.split('-');
        let start = u64::from_str_radix(r.next().unwrap_or("0"), 16).unwrap_or(0);
        let end = u64::from_str_radix(r.next().unwrap_or("0"), 16).unwrap_or(0);
        v.push(Map { start, end, perms, name });
    }
    v
}

pub fn readable(addr: u64, n: usize) -> bool {
    // cheap probe: ask the kernel through a write() to /dev/null-like sink (no faults)
    unsafe {
        let mut fds = [0i32; 2];
        if libc::pipe(fds.as_mut_ptr()) != 0 {
            return false;
        }
        // probe page by page (a pipe takes 64 KiB at most; we never read it)
        let mut ok = true;
        let mut off = 0usize;
        while off < n && ok {
            let chunk = (n - off).min(4096);
            let r = libc::write(fds[1], (addr as usize + off) as *const libc::c_void, chunk);
            ok = r == chunk as isize;
            off += chunk;
            if off >= 60 * 1024 {
                break;
            }
        }
        libc::close(fds[0]);
        libc::close(fds[1]);
        ok
    }
}

/// Copy of every readable+executable mapping except [vsyscall]/[vdso]/[vvar].
#[derive(Clone)]
pub struct ExecSnap {
    pub regions: Vec<(u64, Vec<u8>, String)>,
}

pub fn exec_snapshot() -> ExecSnap {
    let mut regions = Vec::new();
    for m in maps() {
        if !m.perms.starts_with('r') || m.perms.as_bytes().get(2) != Some(&b'x') {
            continue;
        }
        if m.name.starts_with("[v") {
            continue;
        }
        let len = (m.end - m.start) as usize;
        let bytes = unsafe { std::slice::from_raw_parts(m.start as *const u8, len).to_vec() };
        regions.push((m.start, bytes, m.name.clone()));
    }
    ExecSnap { regions }
}

/// Byte ranges (addr, len) that differ between the snapshot and memory now.  Mappings that
/// vanished or appeared are reported separately.
pub struct SnapDiff {
    pub changed: Vec<(u64, u64)>,
    pub appeared: Vec<(u64, u64, String)>,
    pub vanished: Vec<(u64, u64)>,
}

pub fn diff_now(base: &ExecSnap) -> SnapDiff {
    let now = maps();
    let is_rx = |a: u64| now.iter().any(|m| a >= m.start && a < m.end && m.perms.starts_with('r'));
    let mut changed = Vec::new();
    let mut vanished = Vec::new();
    for (start, bytes, _) in &base.regions {
        let mut off = 0usize;
        while off < bytes.len() {
            let page = 4096.min(bytes.len() - off);
            let a = start + off as u64;
            if !is_rx(a) {
                vanished.push((a, page as u64));
                off += page;
                continue;
            }
            let cur = unsafe { std::slice::from_raw_parts(a as *const u8, page) };
            if cur != &bytes[off..off + page] {
                // byte-level runs
                let mut i = 0;
                while i < page {
                    if cur[i] != bytes[off + i] {
                        let s = i;
                        while i < page && cur[i] != bytes[off + i] {
                            i += 1;
                        }
                        changed.push((a + s as u64, (i - s) as u64));
                    } else {
                        i += 1;
                    }
                }
            }
            off += page;
        }
    }
    let mut appeared = Vec::new();
    for m in now.iter() {
        if m.perms.as_bytes().get(2) == Some(&b'x') && !m.name.starts_with("[v") {
            let known = base.regions.iter().any(|(s, b, _)| m.start < s + b.len() as u64 && m.end > *s);
            if !known {
                appeared.push((m.start, m.end, m.perms.clone()));
            }
        }
    }
    SnapDiff { changed, appeared, vanished }
}

/// (start, end, perms) of anonymous executable mappings
pub fn anon_exec_maps() -> Vec<(u64, u64, String)> {
    maps().into_iter().filter(|m| m.perms.as_bytes().get(2) == Some(&b'x') && m.name.is_empty()).map(|m| (m.start, m.end, m.perms)).collect()
}
