//! Synthetic code arenas (DESIGN 2.3): pages at seed-chosen addresses holding tiny functions
//! `mov eax, ID; ret` at any byte offset, made r-x like program text.

use libc::c_void;

pub const MAP_FIXED_NOREPLACE: i32 = 0x100000;

pub fn map_rw(base: u64, len: u64) -> bool {
    unsafe {
        let p = libc::mmap(base as *mut c_void, len as usize, libc::PROT_READ | libc::PROT_WRITE, libc::MAP_PRIVATE | libc::MAP_ANONYMOUS | MAP_FIXED_NOREPLACE, -1, 0);
        if p == libc::MAP_FAILED {
            return false;
        }
        if p as u64 != base {
            libc::munmap(p, len as usize);
            return false;
        }
        std::ptr::write_bytes(base as *mut u8, 0xCC, len as usize);
        true
    }
}

pub fn reserve(base: u64, len: u64) -> bool {
    unsafe {
        let p = libc::mmap(base as *mut c_void, len as usize, libc::PROT_NONE, libc::MAP_PRIVATE | libc::MAP_ANONYMOUS | libc::MAP_NORESERVE | MAP_FIXED_NOREPLACE, -1, 0);
        if p == libc::MAP_FAILED {
            return false;
        }
        if p as u64 != base {
            libc::munmap(p, len as usize);
            return false;
        }
        true
    }
}

pub fn seal_rx(base: u64, len: u64) {
    unsafe {
        libc::mprotect(base as *mut c_void, len as usize, libc::PROT_READ | libc::PROT_EXEC);
    }
}

/// `mov eax, id; ret` (6 bytes) at `addr`.
pub fn write_const_fn(addr: u64, id: u32) {
    let mut code = [0u8; 6];
    code[0] = 0xB8;
    code[1..5].copy_from_slice(&id.to_le_bytes());
    code[5] = 0xC3;
    unsafe { std::ptr::copy_nonoverlapping(code.as_ptr(), addr as *mut u8, 6) };
}

/// `jmp dest` (5 bytes) followed by int3 padding at `addr`: a tail-call forwarder.
pub fn write_jmp_fn(addr: u64, dest: u64) {
    let rel = (dest as i64 - (addr as i64 + 5)) as i32;
    let mut code = [0xCCu8; 6];
    code[0] = 0xE9;
    code[1..5].copy_from_slice(&rel.to_le_bytes());
    unsafe { std::ptr::copy_nonoverlapping(code.as_ptr(), addr as *mut u8, 6) };
}

/// `jmp *0(%rip)` followed by its 8-byte slot holding `dest` (14 bytes): what the address of an
/// imported function designates in a non-PIC executable.
pub fn write_import_stub(addr: u64, dest: u64) {
    let mut code = [0u8; 14];
    code[0] = 0xFF;
    code[1] = 0x25;
    code[6..14].copy_from_slice(&dest.to_le_bytes());
    unsafe { std::ptr::copy_nonoverlapping(code.as_ptr(), addr as *mut u8, 14) };
}

/// Realistic first instructions of compiled functions (none of them changes eax or the stack
/// balance): the patch must replace them, never run them on the way to the fake.
pub const PROLOGUES: [&[u8]; 10] = [
    &[],
    &[0xF3, 0x0F, 0x1E, 0xFA],       // endbr64
    &[0x0F, 0x1F, 0x44, 0x00, 0x00], // nopl 0(%rax,%rax)
    &[0xF3, 0x0F, 0x10, 0xC1],       // movss xmm0, xmm1
    &[0x0F, 0x14, 0xC1],             // unpcklps xmm0, xmm1
    &[0x0F, 0x12, 0xC1],             // movhlps xmm0, xmm1
    &[0x48, 0x89, 0xF7],             // mov rdi, rsi
    &[0x66, 0x90],                   // xchg ax, ax
    &[0x48, 0x8D, 0x36],             // lea rsi, [rsi]
    &[0x4D, 0x31, 0xC9],             // xor r9, r9
];

/// `<prologue>; mov eax, id; ret`
pub fn write_fn_with_prologue(addr: u64, id: u32, prologue: usize) {
    let p = PROLOGUES[prologue % PROLOGUES.len()];
    unsafe { std::ptr::copy_nonoverlapping(p.as_ptr(), addr as *mut u8, p.len()) };
    write_const_fn(addr + p.len() as u64, id);
}

pub fn call_u32(addr: u64) -> u32 {
    let f: extern "C" fn() -> u32 = unsafe { std::mem::transmute(addr as usize) };
    std::hint::black_box(f)()
}
