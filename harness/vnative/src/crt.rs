//! Engine N, family "crt" (C02): install histories whose targets include C runtime functions
//! (the crate's own tests fake `memset` and `getenv`): comparison and scanning routines that the
//! Rust runtime and any library reach through `==` on slices and strings.  While they are faked
//! nothing that goes through them can be trusted, so every judgement below uses volatile byte
//! loops, and a function that was not given back is repaired by hand before the report is built.

use crate::contain::*;
use crate::synth::{real_f0, real_t0, real_t1};
use injectorpp::interface::injector::*;
use serde::{Deserialize, Serialize};
use serde_json::{json, Value};
use simos::rng::Rng;
use std::hint::black_box;
use std::os::raw::{c_char, c_int, c_void};
use std::panic::{catch_unwind, AssertUnwindSafe};

extern "C" {
    fn memcmp(a: *const c_void, b: *const c_void, n: usize) -> c_int;
    fn bcmp(a: *const c_void, b: *const c_void, n: usize) -> c_int;
    fn strlen(s: *const c_char) -> usize;
    fn strcmp(a: *const c_char, b: *const c_char) -> c_int;
    fn strncmp(a: *const c_char, b: *const c_char, n: usize) -> c_int;
    fn memchr(s: *const c_void, c: c_int, n: usize) -> *mut c_void;
    fn strchr(s: *const c_char, c: c_int) -> *mut c_char;
    fn atoi(s: *const c_char) -> c_int;
    fn labs(x: i64) -> i64;
    fn toupper(c: c_int) -> c_int;
}

const NAMES: [&str; 12] = ["memcmp", "bcmp", "strlen", "strcmp", "strncmp", "memchr", "strchr", "atoi", "labs", "toupper", "app0", "app1"];
const APP0: usize = 10;
const WINDOW: usize = 16;

#[derive(Serialize, Deserialize, Clone, Debug, PartialEq)]
pub struct CrtInstall {
    pub target: usize,
    /// 0 will_execute_raw, 1 will_execute + Dummy verifier, 2 unchecked pair
    pub kind: u8,
    /// the fake returns this constant
    pub ret: u64,
}

#[derive(Serialize, Deserialize, Clone, Debug, PartialEq)]
pub struct CrtLifetime {
    pub installs: Vec<CrtInstall>,
    pub exit_unwind: bool,
}

#[derive(Serialize, Deserialize, Clone, Debug, PartialEq)]
pub struct CrtScenario {
    pub engine: String,
    pub family: String,
    pub profile: String,
    pub variant: String,
    pub seed: u64,
    pub index: u64,
    pub lifetimes: Vec<CrtLifetime>,
    pub classes: Vec<String>,
}

pub fn generate(profile: &str, seed: u64, index: u64) -> CrtScenario {
    let mut rng = Rng::new(simos::rng::scenario_seed(seed, &format!("N/crt/{profile}"), index));
    let nl = 1 + rng.below(3) as usize;
    let mut lifetimes = Vec::new();
    let mut classes = Vec::new();
    for _ in 0..nl {
        let n = 1 + rng.below(5) as usize;
        let mut installs = Vec::new();
        // once a byte comparison routine answers "different" the checked entry points refuse every
        // signature, so later installs of that lifetime go through the unchecked pair
        let mut cmp_lies = false;
        for _ in 0..n {
            let target = rng.below(NAMES.len() as u64) as usize;
            let ret = *rng.pick(&[0u64, 1, 1, 77]);
            let kind = if cmp_lies { 2 } else { rng.below(3) as u8 };
            if target <= 1 && ret != 0 {
                cmp_lies = true;
            }
            installs.push(CrtInstall { target, kind, ret });
        }
        // the unwinder itself reads frame descriptions with the C string routines (strlen on the
        // augmentation string): a lifetime that fakes one of them ends by plain scope exit
        let strings_faked = installs.iter().any(|i| (2..=6).contains(&i.target));
        let exit_unwind = rng.chance(1, 3) && !strings_faked;
        classes.push(format!("n{}-{}-{}", installs.len(), if cmp_lies { "cmp-lies" } else { "cmp-true" }, if exit_unwind { "unwind" } else { "drop" }));
        lifetimes.push(CrtLifetime { installs, exit_unwind });
    }
    classes.sort();
    classes.dedup();
    CrtScenario { engine: "N".into(), family: "crt".into(), profile: profile.into(), variant: "x86_64-linux-native".into(), seed, index, lifetimes, classes }
}

extern "C" fn fake0() -> u64 {
    black_box(0)
}
extern "C" fn fake1() -> u64 {
    black_box(1)
}
extern "C" fn fake77() -> u64 {
    black_box(77)
}

fn snapshot(addr: usize) -> [u8; WINDOW] {
    let mut out = [0u8; WINDOW];
    for (i, b) in out.iter_mut().enumerate() {
        *b = unsafe { std::ptr::read_volatile((addr + i) as *const u8) };
    }
    out
}

fn same(a: &[u8; WINDOW], b: &[u8; WINDOW]) -> bool {
    let mut equal = true;
    for i in 0..WINDOW {
        if unsafe { std::ptr::read_volatile(&a[i]) != std::ptr::read_volatile(&b[i]) } {
            equal = false;
        }
    }
    equal
}

fn repair(addr: usize, bytes: &[u8; WINDOW]) {
    unsafe {
        let page = addr & !0xfff;
        libc::mprotect(page as *mut c_void, 0x2000, 7);
        for (i, b) in bytes.iter().enumerate() {
            std::ptr::write_volatile((addr + i) as *mut u8, *b);
        }
        libc::mprotect(page as *mut c_void, 0x2000, 5);
    }
}

struct Injected;

static A4: [u8; 5] = *b"abcd\0";
static B4: [u8; 5] = *b"abce\0";
static NUM: [u8; 3] = *b"42\0";

/// The function's own answer on fixed arguments, folded into one word (1 = what the C standard says).
fn original_answer(i: usize, addr: usize) -> u64 {
    unsafe {
        let a = black_box(A4.as_ptr());
        let b = black_box(B4.as_ptr());
        match i {
            0 | 1 => {
                let f: unsafe extern "C" fn(*const c_void, *const c_void, usize) -> c_int = std::mem::transmute(addr);
                (f(a as _, a as _, 4) == 0 && f(a as _, b as _, 4) != 0) as u64
            }
            2 => {
                let f: unsafe extern "C" fn(*const c_char) -> usize = std::mem::transmute(addr);
                (f(a as _) == 4) as u64
            }
            3 => {
                let f: unsafe extern "C" fn(*const c_char, *const c_char) -> c_int = std::mem::transmute(addr);
                (f(a as _, a as _) == 0 && f(a as _, b as _) < 0) as u64
            }
            4 => {
                let f: unsafe extern "C" fn(*const c_char, *const c_char, usize) -> c_int = std::mem::transmute(addr);
                (f(a as _, b as _, 3) == 0 && f(a as _, b as _, 4) < 0) as u64
            }
            5 => {
                let f: unsafe extern "C" fn(*const c_void, c_int, usize) -> *mut c_void = std::mem::transmute(addr);
                (f(a as _, b'c' as c_int, 4) as usize == a as usize + 2) as u64
            }
            6 => {
                let f: unsafe extern "C" fn(*const c_char, c_int) -> *mut c_char = std::mem::transmute(addr);
                (f(a as _, b'd' as c_int) as usize == a as usize + 3) as u64
            }
            7 => {
                let f: unsafe extern "C" fn(*const c_char) -> c_int = std::mem::transmute(addr);
                (f(black_box(NUM.as_ptr()) as _) == 42) as u64
            }
            8 => {
                let f: unsafe extern "C" fn(i64) -> i64 = std::mem::transmute(addr);
                (f(black_box(-5)) == 5) as u64
            }
            9 => {
                let f: unsafe extern "C" fn(c_int) -> c_int = std::mem::transmute(addr);
                (f(black_box(b'q' as c_int)) == b'Q' as c_int) as u64
            }
            APP0 => (black_box(real_t0 as fn() -> u32)() == 1000) as u64,
            _ => (black_box(real_t1 as fn() -> u32)() == 1001) as u64,
        }
    }
}

/// What a call gives while the function is faked: every fake ignores its arguments.
fn faked_answer(addr: usize) -> u64 {
    let f: extern "C" fn(*const u8, *const u8, usize) -> u64 = unsafe { std::mem::transmute(addr) };
    black_box(f)(black_box(A4.as_ptr()), black_box(A4.as_ptr()), 4)
}

pub fn execute(sc: &CrtScenario, sh: &Shared) -> Value {
    let addrs: [usize; 12] = [
        memcmp as unsafe extern "C" fn(*const c_void, *const c_void, usize) -> c_int as usize,
        bcmp as unsafe extern "C" fn(*const c_void, *const c_void, usize) -> c_int as usize,
        strlen as unsafe extern "C" fn(*const c_char) -> usize as usize,
        strcmp as unsafe extern "C" fn(*const c_char, *const c_char) -> c_int as usize,
        strncmp as unsafe extern "C" fn(*const c_char, *const c_char, usize) -> c_int as usize,
        memchr as unsafe extern "C" fn(*const c_void, c_int, usize) -> *mut c_void as usize,
        strchr as unsafe extern "C" fn(*const c_char, c_int) -> *mut c_char as usize,
        atoi as unsafe extern "C" fn(*const c_char) -> c_int as usize,
        labs as unsafe extern "C" fn(i64) -> i64 as usize,
        toupper as unsafe extern "C" fn(c_int) -> c_int as usize,
        real_t0 as fn() -> u32 as usize,
        real_t1 as fn() -> u32 as usize,
    ];
    // two names for one entry point (glibc resolves bcmp to memcmp's code): the later name stands for the earlier
    let canon: Vec<usize> = (0..addrs.len()).map(|i| (0..i).find(|&j| addrs[j] == addrs[i]).unwrap_or(i)).collect();
    let before: Vec<[u8; WINDOW]> = addrs.iter().map(|a| snapshot(*a)).collect();
    for i in 0..addrs.len() {
        if original_answer(i, addrs[i]) != 1 {
            return json!({"skipped": format!("{} does not answer as expected before any injector existed", NAMES[i])});
        }
    }
    // lazily created process state
    {
        let mut inj = InjectorPP::new();
        inj.when_called(injectorpp::func!(fn (real_t0)() -> u32)).will_execute_raw(injectorpp::func!(fn (real_f0)() -> u32));
    }
    let fakes = [fake0 as extern "C" fn() -> u64 as usize, fake1 as extern "C" fn() -> u64 as usize, fake77 as extern "C" fn() -> u64 as usize];
    let fake_for = |ret: u64| match ret {
        0 => fakes[0],
        1 => fakes[1],
        _ => fakes[2],
    };
    // verdict words, filled in with plain stores while the C runtime cannot be trusted
    let mut wrong_live: Vec<(usize, usize, u64, u64)> = Vec::new(); // lifetime, target, got, want
    let mut not_restored: Vec<(usize, usize, bool, bool)> = Vec::new(); // lifetime, target, bytes ok, answer ok
    let mut install_panics: Vec<(usize, usize)> = Vec::new();
    let mut drop_panics: Vec<usize> = Vec::new();
    wrong_live.reserve(64);
    not_restored.reserve(64);
    install_panics.reserve(64);
    drop_panics.reserve(8);
    let mut installs_ok = 0u64;
    let mut calls = 0u64;
    let mut digest = 0xC27u64;
    unsafe { libc::alarm(60) };
    for (li, lt) in sc.lifetimes.iter().enumerate() {
        sh.note(PH_INSTALL, li as u64, 0, 0);
        let mut current: [Option<u64>; 12] = [None; 12];
        let r = catch_unwind(AssertUnwindSafe(|| {
            let mut inj = InjectorPP::new();
            for (oi, ins) in lt.installs.iter().enumerate() {
                sh.note(PH_INSTALL, li as u64, oi as u64, ins.target as u64);
                let t = canon[ins.target];
                let a = addrs[t] as *const ();
                let f = fake_for(ins.ret) as *const ();
                let res = catch_unwind(AssertUnwindSafe(|| unsafe {
                    match ins.kind {
                        0 => inj.when_called(FuncPtr::new(a, "extern \"C\" fn() -> u64")).will_execute_raw(FuncPtr::new(f, "extern \"C\" fn() -> u64")),
                        1 => inj.when_called(FuncPtr::new(a, "extern \"C\" fn() -> u64")).will_execute((FuncPtr::new(f, "extern \"C\" fn() -> u64"), CallCountVerifier::Dummy)),
                        _ => inj.when_called_unchecked(FuncPtr::new(a, "")).will_execute_raw_unchecked(FuncPtr::new(f, "")),
                    }
                }));
                match res {
                    Ok(()) => {
                        installs_ok += 1;
                        current[t] = Some(if ins.ret > 1 { 77 } else { ins.ret });
                    }
                    Err(_) => install_panics.push((li, oi)),
                }
                // the most recent installation of every faked function is the one in effect
                sh.note(PH_CALL_LIVE, li as u64, oi as u64, 0);
                for (ti, c) in current.iter().enumerate() {
                    if let Some(want) = c {
                        let got = faked_answer(addrs[ti]);
                        calls += 1;
                        if got != *want {
                            wrong_live.push((li, ti, got, *want));
                        }
                    }
                }
            }
            sh.note(PH_DROP, li as u64, 0, 0);
            if lt.exit_unwind {
                std::panic::panic_any(Injected);
            }
        }));
        if let Err(p) = &r {
            if !p.is::<Injected>() {
                drop_panics.push(li);
            }
        }
        sh.note(PH_CALL_AFTER, li as u64, 0, 0);
        // bytes first (no call), then repair whatever was not given back, then behaviour
        let mut broken = false;
        for ti in 0..addrs.len() {
            if canon[ti] != ti {
                continue;
            }
            let now = snapshot(addrs[ti]);
            if !same(&now, &before[ti]) {
                not_restored.push((li, ti, false, true));
                repair(addrs[ti], &before[ti]);
                broken = true;
            }
        }
        if !broken {
            for ti in 0..addrs.len() {
                calls += 1;
                if original_answer(ti, addrs[ti]) != 1 {
                    not_restored.push((li, ti, true, false));
                    broken = true;
                }
            }
        }
        digest = digest.rotate_left(7) ^ (installs_ok * 131 + lt.installs.len() as u64 * 7 + lt.exit_unwind as u64);
        if broken {
            break;
        }
    }
    unsafe { libc::alarm(0) };
    sh.note(PH_DONE, 0, 0, 0);
    // ---- the C runtime is whole again: build the report
    let mut viol: Vec<Value> = Vec::new();
    if let Some((li, ti, got, want)) = wrong_live.first() {
        viol.push(json!({"tag": "most-recent-installation-not-in-effect", "props": ["C02", "C01"], "detail": format!("lifetime {li}: while faked, {} returned {got:#x}; its most recent fake returns {want:#x}", NAMES[*ti])}));
    }
    if let Some((li, ti, bytes_ok, _)) = not_restored.first() {
        let all: Vec<&str> = not_restored.iter().map(|x| NAMES[x.1]).collect();
        viol.push(json!({"tag": "not-restored-after-scope-exit", "props": ["C02"], "detail": if *bytes_ok {
            format!("lifetime {li}: after the injector went, {} no longer answers as it did before the injector existed", NAMES[*ti])
        } else {
            format!("lifetime {li}: after the injector went, the first {WINDOW} bytes of {:?} differ from what they were before the injector existed (install history {:?})", all, sc.lifetimes[*li].installs.iter().map(|i| NAMES[i.target]).collect::<Vec<_>>())
        }}));
    }
    if let Some((li, oi)) = install_panics.first() {
        viol.push(json!({"tag": "well-formed-installation-refused", "props": ["C02"], "detail": format!("lifetime {li} install {oi}: the installation panicked although signatures agree")}));
    }
    if let Some(li) = drop_panics.first() {
        viol.push(json!({"tag": "drop-panicked", "props": ["C02", "C05"], "detail": format!("lifetime {li}: scope exit raised a panic of its own")}));
    }
    json!({
        "violations": viol,
        "digest": format!("{:016x}", digest),
        "probes": {"lifetimes_with_faked_c_runtime": sc.lifetimes.len(), "byte_comparison_routine_faked_to_lie": sc.classes.iter().filter(|c| c.contains("cmp-lies")).count()},
        "faults": {"injected_panic_at_scope_exit": sc.lifetimes.iter().filter(|l| l.exit_unwind).count()},
        "events": 0,
        "calls": calls,
        "installs_ok": installs_ok,
    })
}
