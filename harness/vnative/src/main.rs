//! vnative — runner for engine N scenarios: the unmodified injectorpp crate from /repo on the
//! real CPU, the OS behind link-time interposers (DESIGN 2.3).
//!
//!   vnative run --prop C02 --profile C02 --seed 1 --count N --shard i/n
//!   vnative replay FILE

mod arena;
mod asyncf;
mod contain;
mod count;
mod crash;
mod crt;
mod cycles;
mod probe;
mod sigs;
mod interpose;
mod snap;
mod synth;

use contain::*;
use serde_json::{json, Value};
use std::collections::{BTreeMap, BTreeSet};

fn arg<'a>(args: &'a [String], name: &str) -> Option<&'a str> {
    args.iter().position(|a| a == name).and_then(|i| args.get(i + 1)).map(|s| s.as_str())
}

fn fnv(s: &str) -> u64 {
    let mut h = 0xcbf2_9ce4_8422_2325u64;
    for b in s.bytes() {
        h ^= b as u64;
        h = h.wrapping_mul(0x100_0000_01b3);
    }
    h
}

fn mix(a: u64, b: u64) -> u64 {
    let mut s = a ^ b.wrapping_mul(0x9E37_79B9_7F4A_7C15);
    simos::rng::splitmix64(&mut s)
}

/// Execute one materialised scenario (any N profile) in a contained child.
fn run_one(scv: &Value, sh: &Shared) -> Value {
    let profile_kind = scv["engine"].as_str().unwrap_or("");
    assert_eq!(profile_kind, "N");
    sh.clear();
    let kind = scv.get("family").and_then(|v| v.as_str()).unwrap_or("synth").to_string();
    let end = match kind.as_str() {
        "synth" => {
            let sc: synth::NScenario = match serde_json::from_value(scv.clone()) {
                Ok(s) => s,
                Err(e) => return json!({"invalid": format!("{e}")}),
            };
            run_contained(120, || synth::execute(&sc, sh))
        }
        "count" => {
            let sc: count::CountScenario = match serde_json::from_value(scv.clone()) {
                Ok(s) => s,
                Err(e) => return json!({"invalid": format!("{e}")}),
            };
            run_contained(120, || count::execute(&sc, sh))
        }
        "crash" => {
            let sc: crash::CrashScenario = match serde_json::from_value(scv.clone()) {
                Ok(s) => s,
                Err(e) => return json!({"invalid": format!("{e}")}),
            };
            run_contained(300, || crash::execute(&sc, sh))
        }
        "async" => {
            let sc: asyncf::AsyncScenario = match serde_json::from_value(scv.clone()) {
                Ok(s) => s,
                Err(e) => return json!({"invalid": format!("{e}")}),
            };
            run_contained(300, || asyncf::execute(&sc, sh))
        }
        "sigs" => {
            let sc: sigs::SigScenario = match serde_json::from_value(scv.clone()) {
                Ok(s) => s,
                Err(e) => return json!({"invalid": format!("{e}")}),
            };
            run_contained(120, || sigs::execute(&sc, sh))
        }
        "cycles" => {
            let sc: cycles::CycScenario = match serde_json::from_value(scv.clone()) {
                Ok(s) => s,
                Err(e) => return json!({"invalid": format!("{e}")}),
            };
            run_contained(1600, || cycles::execute(&sc, sh))
        }
        "crt" => {
            let sc: crt::CrtScenario = match serde_json::from_value(scv.clone()) {
                Ok(s) => s,
                Err(e) => return json!({"invalid": format!("{e}")}),
            };
            run_contained(120, || crt::execute(&sc, sh))
        }
        "probe" => {
            let sc: probe::ProbeScenario = match serde_json::from_value(scv.clone()) {
                Ok(s) => s,
                Err(e) => return json!({"invalid": format!("{e}")}),
            };
            run_contained(120, || probe::execute(&sc, sh))
        }
        other => return json!({"invalid": format!("unknown family {other}")}),
    };
    match end {
        ChildEnd::Report(v) => {
            // a child whose heap was corrupted by wild execution can hand back a damaged report:
            // every violation must be a well-formed {tag, props, detail}
            if let Some(msg) = v.get("escaped_panic").and_then(|m| m.as_str()) {
                let prop = match kind.as_str() {
                    "async" => "C14",
                    "count" => if scv["profile"] == "C07" { "C07" } else { "C06" },
                    "crash" => "C05",
                    "sigs" => "C09",
                    "cycles" => "C12",
                    "crt" => "C02",
                    "probe" => if scv["profile"] == "C10" { "C10" } else { "C13" },
                    _ => scv["profile"].as_str().unwrap_or("C01"),
                };
                return json!({"violations": [{"tag": "library-panicked-where-no-panic-is-due", "props": [prop, "C05"], "detail": format!("a panic escaped the scenario at a point where the unchanged tree never panics (after lifetime {}, step {}, phase {}): {msg:?}", sh.get(1), sh.get(2), sh.get(0))}],
                              "digest": "000000000000e5c9", "died": "escaped-panic"});
            }
            let well_formed = v.get("skipped").is_some()
                || (v["violations"].is_array()
                    && v["digest"].is_string()
                    && v["violations"].as_array().unwrap().iter().all(|x| x["tag"].is_string() && x["props"].is_array() && x["detail"].is_string()));
            if well_formed {
                v
            } else {
                let prop = match kind.as_str() {
                    "async" => "C14",
                    "count" => "C06",
                    "crash" => "C05",
                    "sigs" => "C09",
                    "cycles" => "C12",
                    "crt" => "C02",
                    "probe" => {
                        if scv["profile"] == "C10" {
                            "C10"
                        } else {
                            "C13"
                        }
                    }
                    _ => "C01",
                };
                json!({"violations": [{"tag": "child-report-corrupted[memory damaged by wild execution]", "props": [prop], "detail": "the scenario's child process returned a damaged report: its memory was corrupted while the scenario ran (a call went somewhere it must not)"}],
                       "digest": "00000000000badc0", "died": "corrupted"})
            }
        }
        ChildEnd::Signal(s) => {
            let v = match kind.as_str() {
                "crash" => crash::signal_violation(s, sh),
                "cycles" => json!({"tag": format!("died-with-signal[{}]", signal_name(s)), "props": ["C12"], "detail": format!("killed by {} in cycle {}", signal_name(s), sh.get(1))}),
                "crt" => json!({"tag": format!("died-with-signal[{}]", signal_name(s)), "props": ["C02", "C01"], "detail": format!("killed by {} in lifetime {}, install {} (phase {}) of a history that fakes C runtime functions", signal_name(s), sh.get(1), sh.get(2), sh.get(0))}),
                "sigs" => json!({"tag": format!("died-with-signal[{}]", signal_name(s)), "props": ["C09"], "detail": format!("killed by {} in lifetime {}, item {}", signal_name(s), sh.get(1), sh.get(2))}),
                "async" => json!({"tag": format!("died-with-signal[{}]", signal_name(s)), "props": ["C14"], "detail": format!("killed by {} in lifetime {}, op {} (phase {})", signal_name(s), sh.get(1), sh.get(2), sh.get(0))}),
                "probe" => probe::signal_violation(s, sh, if scv["profile"] == "C10" { "C10" } else { "C13" }),
                "count" => json!({"tag": format!("died-with-signal[{}]", signal_name(s)), "props": ["C06", "C05"], "detail": format!("killed by {} in lifetime {}, call {}", signal_name(s), sh.get(1), sh.get(2))}),
                _ => synth::signal_violation(s, sh),
            };
            json!({"violations": [v], "digest": format!("{:016x}", 0xDEADu64 + s as u64), "died": signal_name(s)})
        }
        ChildEnd::Exit(c) => json!({"violations": [{"tag": format!("child-exit-{c}"), "props": [], "detail": "child exited abnormally"}], "harness_error": true}),
        ChildEnd::NoReport => json!({"violations": [], "harness_error": true}),
    }
}

fn generate(family: &str, profile: &str, seed: u64, index: u64) -> Value {
    match family {
        "synth" => serde_json::to_value(synth::generate(profile, seed, index)).unwrap(),
        "count" => serde_json::to_value(count::generate(profile, seed, index)).unwrap(),
        "crash" => serde_json::to_value(crash::generate(profile, seed, index)).unwrap(),
        "probe" => serde_json::to_value(probe::generate(profile, seed, index)).unwrap(),
        "cycles" => serde_json::to_value(cycles::generate(profile, seed, index)).unwrap(),
        "crt" => serde_json::to_value(crt::generate(profile, seed, index)).unwrap(),
        "sigs" => serde_json::to_value(sigs::generate(profile, seed, index)).unwrap(),
        "async" => serde_json::to_value(asyncf::generate(profile, seed, index)).unwrap(),
        f => panic!("unknown family {f}"),
    }
}

fn main() {
    contain::ensure_no_aslr();
    let args: Vec<String> = std::env::args().collect();
    let show = std::env::var("VERIF_SHOW_PANICS").is_ok();
    std::panic::set_hook(Box::new(move |info| {
        count::PANICS.fetch_add(1, std::sync::atomic::Ordering::SeqCst);
        if show {
            eprintln!("[panic] {info}");
        }
    }));
    let sh = Shared::new();
    match args.get(1).map(|s| s.as_str()) {
        Some("gen") => {
            let sc = generate(arg(&args, "--family").unwrap_or("synth"), arg(&args, "--profile").unwrap(), arg(&args, "--seed").unwrap_or("1").parse().unwrap(), arg(&args, "--index").unwrap_or("0").parse().unwrap());
            println!("{}", serde_json::to_string_pretty(&sc).unwrap());
        }
        Some("replay") => {
            let text = std::fs::read_to_string(&args[2]).expect("read replay file");
            let v: Value = serde_json::from_str(&text).expect("parse replay file");
            let scv = if v.get("scenario").is_some() { v["scenario"].clone() } else { v };
            let out = run_one(&scv, &sh);
            println!("{}", out);
        }
        Some("run") => {
            let profile = arg(&args, "--profile").unwrap().to_string();
            let family = arg(&args, "--family").unwrap_or("synth").to_string();
            let seed: u64 = arg(&args, "--seed").unwrap_or("1").parse().unwrap();
            let count: u64 = arg(&args, "--count").unwrap().parse().unwrap();
            let shard = arg(&args, "--shard").unwrap_or("0/1");
            let (si, sn) = {
                let mut it = shard.split('/');
                (it.next().unwrap().parse::<u64>().unwrap(), it.next().unwrap().parse::<u64>().unwrap())
            };
            let want_prop = arg(&args, "--prop").map(|s| s.to_string());
            // Some(p): only scenarios whose index has parity p (the driver runs the other half on
            // the other build of this binary)
            let parity: Option<u64> = arg(&args, "--parity").and_then(|s| s.parse().ok());
            let mut evaluations = 0u64;
            let mut nontrivial = 0u64;
            let mut skipped = 0u64;
            let mut distinct: BTreeSet<u64> = BTreeSet::new();
            let mut faults: BTreeMap<String, u64> = BTreeMap::new();
            let mut probes: BTreeMap<String, u64> = BTreeMap::new();
            let mut events = 0u64;
            let mut calls = 0u64;
            let mut installs = 0u64;
            let mut digest_sum = 0u64;
            let mut violations = Vec::new();
            let mut per_tag: BTreeMap<String, u32> = BTreeMap::new();
            let mut other: BTreeMap<String, u64> = BTreeMap::new();
            let mut samples = Vec::new();
            let mut idx = si;
            while idx < count {
                if let Some(p) = parity {
                    if idx % 2 != p {
                        idx += sn;
                        continue;
                    }
                }
                let scv: Value = generate(&family, &profile, seed, idx);
                let out = run_one(&scv, &sh);
                if out.get("harness_error").is_some() {
                    println!("HARNESS-ERROR vnative: scenario {idx} produced no report: {out}");
                    std::process::exit(2);
                }
                if out.get("skipped").is_some() {
                    skipped += 1;
                    idx += sn;
                    continue;
                }
                evaluations += 1;
                let d = u64::from_str_radix(out["digest"].as_str().unwrap_or("0"), 16).unwrap_or(0);
                digest_sum = digest_sum.wrapping_add(mix(idx, d));
                events += out["events"].as_u64().unwrap_or(0);
                calls += out["calls"].as_u64().unwrap_or(0);
                installs += out["installs_ok"].as_u64().unwrap_or(0);
                let fired = out["faults"].as_object().map(|o| !o.is_empty()).unwrap_or(false);
                if out["installs_ok"].as_u64().unwrap_or(0) > 0 || fired || out.get("died").is_some() {
                    nontrivial += 1;
                    let cls: Vec<String> = scv["classes"].as_array().map(|a| a.iter().map(|x| x.as_str().unwrap_or("").to_string()).collect()).unwrap_or_default();
                    distinct.insert(fnv(&cls.join(",")));
                }
                for (key, acc) in [("faults", &mut faults), ("probes", &mut probes)] {
                    if let Some(o) = out[key].as_object() {
                        for (k, v) in o {
                            *acc.entry(k.clone()).or_insert(0) += v.as_u64().unwrap_or(0);
                        }
                    }
                }
                if let Some(vs) = out["violations"].as_array() {
                    for v in vs {
                        let props: Vec<String> = v["props"].as_array().map(|a| a.iter().map(|x| x.as_str().unwrap_or("").to_string()).collect()).unwrap_or_default();
                        let mine = match &want_prop {
                            Some(p) => props.iter().any(|x| x == p),
                            None => true,
                        };
                        let tag = v["tag"].as_str().unwrap_or("").to_string();
                        if mine {
                            let n = per_tag.entry(tag.clone()).or_insert(0);
                            *n += 1;
                            if *n <= 2 && violations.len() < 40 {
                                violations.push(json!({"index": idx, "violation": v, "digest": out["digest"], "scenario": scv}));
                            }
                        } else {
                            *other.entry(format!("{}:{}", props.join("+"), tag)).or_insert(0) += 1;
                        }
                    }
                }
                if samples.len() < 2 && si == 0 && out["installs_ok"].as_u64().unwrap_or(0) > 0 {
                    samples.push(scv.clone());
                }
                idx += sn;
            }
            let mut per_variant = BTreeMap::new();
            per_variant.insert("x86_64-linux-native".to_string(), evaluations);
            println!(
                "{}",
                json!({
                    "evaluations": evaluations,
                    "nontrivial": nontrivial,
                    "distinct": distinct.iter().map(|h| format!("{h:x}")).collect::<Vec<_>>(),
                    "faults": faults,
                    "probes": probes,
                    "per_variant": per_variant,
                    "events": events,
                    "steps": calls,
                    "digest_sum": format!("{digest_sum:016x}"),
                    "violations": violations,
                    "other_prop_violations": other,
                    "samples": samples,
                    "extra": {"scenarios_skipped_layout_unavailable": skipped, "installs_ok": installs, "real_calls": calls},
                })
            );
        }
        _ => {
            eprintln!("usage: vnative run|replay|gen ...");
            std::process::exit(2);
        }
    }
}
