//! Engine N, "synth" profiles: synthetic and real functions patched by the unmodified crate on the
//! real CPU, real kernel behind the interposer.  Serves C01 C02 C03 C11 C12 C17.

use crate::arena;
use crate::contain::*;
use crate::interpose::{self, Faults, NEv};
use crate::snap;
use injectorpp::interface::injector::*;
use serde::{Deserialize, Serialize};
use serde_json::{json, Value};
use simos::rng::Rng;
use std::collections::BTreeMap;
use std::hint::black_box;
use std::panic::{catch_unwind, AssertUnwindSafe};

// ---------------------------------------------------------------------------------- real functions

#[inline(never)]
pub fn real_t0() -> u32 {
    black_box(1000)
}
#[inline(never)]
pub fn real_t1() -> u32 {
    black_box(1001)
}
#[inline(never)]
pub fn real_t2() -> u32 {
    black_box(1002)
}
#[inline(never)]
pub fn real_generic<T: Default + std::fmt::Debug>() -> u32 {
    black_box(1100 + std::mem::size_of::<T>() as u32)
}
#[inline(never)]
pub fn real_f0() -> u32 {
    black_box(2000)
}
#[inline(never)]
pub fn real_f1() -> u32 {
    black_box(2001)
}

const N_REAL: usize = 6;

extern "C" fn lib_fake_labs(_x: libc::c_long) -> libc::c_long {
    black_box(7001)
}
extern "C" fn lib_fake_atoi(_s: *const libc::c_char) -> libc::c_int {
    black_box(7002)
}

fn real_target_ptr(i: usize) -> FuncPtr {
    match i {
        0 => injectorpp::func!(fn (real_t0)() -> u32),
        1 => injectorpp::func!(fn (real_t1)() -> u32),
        2 => injectorpp::func!(fn (real_t2)() -> u32),
        3 => injectorpp::func!(real_generic::<u64>, fn() -> u32),
        4 => injectorpp::func!(libc::labs, unsafe extern "C" fn(libc::c_long) -> libc::c_long),
        _ => injectorpp::func!(libc::atoi, unsafe extern "C" fn(*const libc::c_char) -> libc::c_int),
    }
}
fn real_target_call(i: usize) -> u32 {
    match i {
        0 => black_box(real_t0 as fn() -> u32)(),
        1 => black_box(real_t1 as fn() -> u32)(),
        2 => black_box(real_t2 as fn() -> u32)(),
        3 => black_box(real_generic::<u64> as fn() -> u32)(),
        4 => unsafe { black_box(libc::labs as unsafe extern "C" fn(libc::c_long) -> libc::c_long)(-1104) as u32 },
        _ => unsafe { black_box(libc::atoi as unsafe extern "C" fn(*const libc::c_char) -> libc::c_int)(b"1105\0".as_ptr() as *const libc::c_char) as u32 },
    }
}
fn real_target_orig(i: usize) -> u32 {
    match i {
        0 => 1000,
        1 => 1001,
        2 => 1002,
        3 => 1108,
        4 => 1104,
        _ => 1105,
    }
}
fn real_target_addr(i: usize) -> u64 {
    match i {
        0 => real_t0 as fn() -> u32 as usize as u64,
        1 => real_t1 as fn() -> u32 as usize as u64,
        2 => real_t2 as fn() -> u32 as usize as u64,
        3 => real_generic::<u64> as fn() -> u32 as usize as u64,
        4 => libc::labs as unsafe extern "C" fn(libc::c_long) -> libc::c_long as usize as u64,
        _ => libc::atoi as unsafe extern "C" fn(*const libc::c_char) -> libc::c_int as usize as u64,
    }
}
/// the other instantiation of the generic function: a bystander that must never change
fn real_bystander_call() -> u32 {
    black_box(real_generic::<u16> as fn() -> u32)()
}

// ---------------------------------------------------------------------------------- scenario

#[derive(Serialize, Deserialize, Clone, Debug, PartialEq)]
pub struct TRef {
    /// synth | real
    pub kind: String,
    pub idx: usize,
    /// u32 | bool
    pub ret: String,
}

#[derive(Serialize, Deserialize, Clone, Debug, PartialEq)]
pub struct NOp {
    /// install | call | call_threads
    pub op: String,
    pub target: usize,
    /// raw | checked | unchecked | boolean | closure | fakemacro | realfn
    pub kind: String,
    /// synthetic fake: index into funcs
    pub fake: usize,
    pub value: bool,
    /// "" | enomem | mprotect
    pub fault: String,
}

#[derive(Serialize, Deserialize, Clone, Debug, PartialEq)]
pub struct NLifetime {
    pub ops: Vec<NOp>,
    pub exit_panic: bool,
    /// what the rest of the process did since the previous lifetime: "reprotect_text" = the
    /// synthetic code pages are r-x again
    #[serde(default)]
    pub pre: Vec<String>,
    /// the k-th mprotect made while the injector goes away is refused once (last lifetime only,
    /// plain drop only, no function faked twice: see DESIGN 5.1, round 6, C01-f)
    #[serde(default)]
    pub exit_mprotect_fail: Option<u64>,
}

#[derive(Serialize, Deserialize, Clone, Debug, PartialEq)]
pub struct NScenario {
    pub engine: String,
    pub profile: String,
    pub variant: String,
    pub seed: u64,
    pub index: u64,
    pub arenas: Vec<(u64, u64)>,
    pub funcs: Vec<(u64, u32)>,
    pub reserves: Vec<(u64, u64)>,
    pub targets: Vec<TRef>,
    pub bystanders: Vec<usize>,
    /// (function index, destination function index): the function's code is `jmp destination`
    #[serde(default)]
    pub forwards: Vec<(usize, usize)>,
    /// positions in `forwards` written as an import stub (`jmp *slot(%rip)` with the slot right
    /// behind it, bound to the destination) instead of `jmp rel32`
    #[serde(default)]
    pub import_stubs: Vec<usize>,
    /// synthetic functions start with varied realistic first instructions
    #[serde(default)]
    pub prologues: bool,
    /// distance between consecutive synthetic functions = extent of one of them
    #[serde(default = "default_pitch")]
    pub pitch: u64,
    pub lifetimes: Vec<NLifetime>,
    pub classes: Vec<String>,
}

const PS: u64 = 4096;
const WIN: u64 = 0x800_0000;

fn default_pitch() -> u64 {
    16
}

fn id_for(k: usize) -> u32 {
    // low byte 0x5A: neither `true` nor `false`
    0x5A + 0x100 * (k as u32 + 1)
}

pub fn generate(profile: &str, seed: u64, index: u64) -> NScenario {
    let mut rng = Rng::new(simos::rng::scenario_seed(seed, &format!("N/{profile}"), index));
    let mut classes: Vec<String> = Vec::new();
    let mut arenas: Vec<(u64, u64)> = Vec::new();
    let mut funcs: Vec<(u64, u32)> = Vec::new();
    let mut reserves: Vec<(u64, u64)> = Vec::new();
    // ---- target arena
    let bc = match profile {
        "C11" => *rng.pick(&[0u64, 1, 1, 2, 3]),
        _ => rng.below(5).min(3),
    };
    let base = match bc {
        0 => *rng.pick(&[0x1000u64, 0x10000, 0x2000]),
        1 => 0x10000 + rng.below(WIN / PS - 64) * PS,
        2 => 0x1000_0000_0000 + rng.below(0x1000_0000) * PS,
        _ => 0x7000_0000_0000 + rng.below(0x100_0000) * PS,
    };
    classes.push(format!("base{bc}"));
    let tpages = 3u64;
    arenas.push((base, tpages));
    let oc = rng.below(7);
    let off = match oc {
        0 => 0,
        1 => 1 + rng.below(15),
        2 => PS - 16 + rng.below(5),        // ends inside the page / just touching
        3 => PS - 4 + rng.below(4),         // the 5-byte jump spans two pages
        6 => PS - 8 + rng.below(4),         // the jump fits, an 8-byte access at the entry would not
        4 => rng.below(PS - 64),
        _ => rng.below(PS / 16) * 16,
    };
    classes.push(format!("off{oc}"));
    let n_t = match profile {
        "C01" | "C11" => 1 + rng.below(2) as usize,
        _ => 2 + rng.below(4) as usize,
    };
    let n_b = match profile {
        "C03" => 2 + rng.below(3) as usize,
        "C01" | "C11" => rng.below(2) as usize,
        _ => 1 + rng.below(2) as usize,
    };
    let mut targets: Vec<TRef> = Vec::new();
    let mut bystanders: Vec<usize> = Vec::new();
    let mut roles: Vec<bool> = (0..n_t + n_b).map(|i| i < n_t).collect();
    for i in (1..roles.len()).rev() {
        let j = rng.below(i as u64 + 1) as usize;
        roles.swap(i, j);
    }
    if !roles[0] {
        let p = roles.iter().position(|r| *r).unwrap();
        roles.swap(0, p);
    }
    // a third of the layouts pack the functions as tightly as the 5-byte entry jump allows
    // (`mov eax, id; ret` is 6 bytes; on Linux the trampoline is always within rel32 reach)
    let tight = rng.chance(1, 3);
    let pitch: u64 = if tight { 8 } else { 16 };
    if tight {
        classes.push("tight".into());
    }
    let mut next = base + off;
    let n_roles = roles.len();
    for (ri, is_t) in roles.into_iter().enumerate() {
        if tight && ri + 1 == n_roles && ri > 0 && rng.chance(1, 4) {
            // the last function of the arena: what lies behind it may not be mapped
            next = base + tpages * PS - pitch;
        }
        let k = funcs.len();
        funcs.push((next, id_for(k)));
        if is_t {
            let ret = if rng.chance(1, 4) { "bool" } else { "u32" };
            targets.push(TRef { kind: "synth".into(), idx: k, ret: ret.into() });
        } else {
            bystanders.push(k);
        }
        next += pitch;
        if rng.chance(1, 6) {
            next = base + PS + rng.below(PS / 16) * 16;
        }
        // slots never overlap
        while funcs.iter().any(|(a, _)| (*a as i64 - next as i64).abs() < pitch as i64) {
            next += pitch;
        }
    }
    // some synthetic targets are tail-call forwarders to a bystander
    let mut forwards: Vec<(usize, usize)> = Vec::new();
    if !bystanders.is_empty() {
        for t in targets.iter() {
            if rng.chance(1, 6) {
                let dest = *rng.pick(&bystanders);
                // rel32 must reach (same arena: always)
                forwards.push((t.idx, dest));
            }
        }
        for (f, d) in &forwards {
            funcs[*f].1 = funcs[*d].1;
        }
        if !forwards.is_empty() {
            classes.push("forwarder-target".into());
        }
    }
    // (own stream: the rest of the scenario does not depend on it)
    let mut import_stubs: Vec<usize> = Vec::new();
    if pitch >= 16 {
        let mut srng = Rng::new(simos::rng::scenario_seed(seed, &format!("N/synth-stubs/{profile}"), index));
        for i in 0..forwards.len() {
            if srng.chance(1, 2) {
                import_stubs.push(i);
            }
        }
        if !import_stubs.is_empty() {
            classes.push("import-stub-target".into());
        }
    }
    let with_real = matches!(profile, "C02" | "C03" | "C12" | "C17") && rng.chance(1, 2) || (profile == "C01" && rng.chance(1, 5));
    if with_real {
        let n = 1 + rng.below(N_REAL as u64) as usize;
        for i in 0..n {
            targets.push(TRef { kind: "real".into(), idx: i, ret: "u32".into() });
        }
        classes.push("real-targets".into());
    }
    // ---- neighbourhood
    let t0 = funcs[targets[0].idx].0;
    let tpage = t0 / PS * PS;
    let hc = match profile {
        "C11" => *rng.pick(&[0u64, 1, 2, 2, 2]),
        "C01" => *rng.pick(&[0u64, 0, 0, 2]),
        _ => {
            if rng.chance(1, 12) {
                2
            } else {
                0
            }
        }
    };
    let mut hole: Option<u64> = None;
    let lo = tpage.saturating_sub(WIN + 16 * PS).max(0x1000);
    let hi = tpage + WIN + 16 * PS;
    let text_end = base + tpages * PS;
    match hc {
        0 => classes.push("hood-empty".into()),
        1 => {
            if lo < base {
                reserves.push((lo, base - lo));
            }
            reserves.push((text_end, hi - text_end));
            classes.push("hood-full".into());
        }
        _ => {
            let pages = (WIN / PS) as i64;
            let dc = rng.below(7);
            let d: i64 = match dc {
                0 => -pages,
                1 => -pages + 1,
                2 => pages,
                3 => pages - 1,
                4 => -(1 + rng.below(4) as i64),
                5 => (tpages + rng.below(4)) as i64,
                _ => rng.range(0, 2 * pages as u64) as i64 - pages,
            };
            let mut h = (tpage as i64 + d * PS as i64).max(0x1000) as u64;
            if h >= base && h < text_end {
                h = text_end;
            }
            hole = Some(h);
            let mut segs: Vec<(u64, u64)> = Vec::new();
            if lo < base {
                segs.push((lo, base));
            }
            segs.push((text_end, hi));
            for (s, e) in segs {
                if h >= s && h < e {
                    if s < h {
                        reserves.push((s, h - s));
                    }
                    if h + PS < e {
                        reserves.push((h + PS, e - h - PS));
                    }
                } else {
                    reserves.push((s, e - s));
                }
            }
            classes.push(format!("hood-hole{dc}"));
        }
    }
    // ---- fakes
    // near fakes live in the last page of the target arena
    let n_near = 2 + rng.below(3) as usize;
    let mut fake_ids: Vec<usize> = Vec::new();
    // (in a third of the layouts the first of them starts exactly on the page boundary)
    let near_base = if rng.chance(1, 3) {
        classes.push("fake-page-aligned".into());
        0
    } else {
        0x800
    };
    for i in 0..n_near {
        let mut a = base + 2 * PS + near_base + 16 * i as u64;
        // never on top of a function placed earlier (targets may run over into this page)
        while funcs.iter().any(|(x, _)| (*x as i64 - a as i64).abs() < 16) {
            a += 16;
        }
        let k = funcs.len();
        funcs.push((a, id_for(k)));
        fake_ids.push(k);
    }
    // far fakes: beyond rel32 from anything near the target
    let fc = rng.below(4);
    if fc >= 1 {
        let predicted = hole.or_else(|| {
            if hc == 0 {
                let start = t0.saturating_sub(WIN);
                let mut p = start / PS * PS;
                if p < start || p < 0x1000 {
                    p += PS;
                }
                Some(p.max(0x1000))
            } else {
                None
            }
        });
        let far_addr = match (fc, predicted) {
            (1, Some(j)) => {
                // exactly on / next to the rel32 boundary as seen from the predicted trampoline
                let b: i128 = *rng.pick(&[i32::MAX as i128, i32::MAX as i128 + 1, i32::MIN as i128, i32::MIN as i128 - 1]);
                let a = j as i128 + 5 + b;
                classes.push("fake-rel32-edge".into());
                if a > 0x1000 {
                    a as u64
                } else {
                    j + 5 + 0x8000_0000
                }
            }
            (2, _) => {
                classes.push("fake-far".into());
                let d = 0x1_0000_0000 + rng.below(0x100_0000) * 16;
                if t0 > 0x4000_0000_0000 {
                    t0 - d
                } else {
                    t0 + d
                }
            }
            _ => {
                classes.push("fake-far-low".into());
                if t0 > 0x2_0000_0000 {
                    0x10_0000 + rng.below(0x1000) * 16
                } else {
                    0x6000_0000_0000 + rng.below(0x10_0000) * 16
                }
            }
        };
        let fa_base = far_addr / PS * PS;
        let pages = if far_addr % PS > PS - 16 { 2 } else { 1 };
        let clash = arenas.iter().any(|(b, p)| fa_base < b + p * PS && fa_base + pages * PS > *b) || fa_base < 0x1000 || fa_base > 0x7f00_0000_0000;
        if !clash {
            // carve the far arena out of any reservation
            let mut nres = Vec::new();
            for (s, l) in reserves.drain(..) {
                let e = s + l;
                let (fs, fe) = (fa_base, fa_base + pages * PS);
                if fe <= s || fs >= e {
                    nres.push((s, l));
                } else {
                    if s < fs {
                        nres.push((s, fs - s));
                    }
                    if fe < e {
                        nres.push((fe, e - fe));
                    }
                }
            }
            reserves = nres;
            arenas.push((fa_base, pages));
            let k = funcs.len();
            funcs.push((far_addr, id_for(k)));
            fake_ids.push(k);
        }
    } else {
        classes.push("fake-near-only".into());
    }
    // ---- lifetimes
    let n_l = match profile {
        "C01" | "C11" => 1,
        _ => 1 + rng.below(3) as usize,
    };
    let mut lifetimes = Vec::new();
    for _ in 0..n_l {
        let n_ops = match profile {
            "C01" | "C11" => 1 + rng.below(3),
            _ => rng.below(8),
        };
        let mut ops: Vec<NOp> = Vec::new();
        let mut faked: Vec<usize> = Vec::new();
        for _ in 0..n_ops {
            let t = if !faked.is_empty() && rng.chance(2, 5) { *rng.pick(&faked) } else { rng.below(targets.len() as u64) as usize };
            let tr = &targets[t];
            let kind = if tr.kind == "real" && tr.idx >= 4 {
                *rng.pick(&["libfake", "libfake", "libfake_unchecked"])
            } else if tr.ret == "bool" {
                *rng.pick(&["boolean", "boolean", "raw", "unchecked"])
            } else if tr.kind == "real" {
                *rng.pick(&["raw", "checked", "unchecked", "closure", "fakemacro", "realfn", "fakecounted", "closure_unchecked", "func_unchecked"])
            } else {
                *rng.pick(&["raw", "checked", "unchecked", "raw", "closure", "realfn", "fakecounted", "closure_unchecked", "func_unchecked"])
            };
            let fake = *rng.pick(&fake_ids);
            let fault = if profile == "C11" && rng.chance(1, 6) {
                "enomem"
            } else if rng.chance(1, 25) {
                *rng.pick(&["enomem", "mprotect", "enomem_transient", "enomem_transient", "mprotect_second_page"])
            } else {
                ""
            };
            classes.push(format!("kind-{kind}"));
            if !fault.is_empty() {
                classes.push(format!("fault-{fault}"));
            }
            ops.push(NOp { op: "install".into(), target: t, kind: kind.into(), fake, value: rng.chance(1, 2), fault: fault.into() });
            if fault.is_empty() || fault == "enomem_transient" {
                faked.push(t);
            }
            // calls after most installs
            if rng.chance(3, 4) {
                let ct = if rng.chance(2, 3) { t } else { rng.below(targets.len() as u64) as usize };
                let op = if rng.chance(1, 8) {
                    "call_threads"
                } else if rng.chance(1, 8) {
                    "call_fork"
                } else {
                    "call"
                };
                ops.push(NOp { op: op.into(), target: ct, kind: String::new(), fake: 0, value: false, fault: String::new() });
            }
        }
        let exit_panic = rng.chance(1, 4);
        classes.push(if exit_panic { "exit-panic".into() } else { "exit-drop".into() });
        let mut pre: Vec<String> = Vec::new();
        if !lifetimes.is_empty() && rng.chance(1, 3) {
            pre.push("reprotect_text".into());
            classes.push("env-reprotect-text".into());
        }
        if !lifetimes.is_empty() && rng.chance(1, 6) {
            // a forked child of this process has an injector lifetime of its own
            pre.push("fork_lifetime".into());
            classes.push("env-fork-lifetime".into());
        }
        lifetimes.push(NLifetime { ops, exit_panic, pre, exit_mprotect_fail: None });
    }
    if let Some(last) = lifetimes.last_mut() {
        let mut seen = std::collections::BTreeSet::new();
        let installs: Vec<&NOp> = last.ops.iter().filter(|o| o.op == "install").collect();
        let once = installs.iter().all(|o| seen.insert(o.target));
        let plain = installs.iter().all(|o| o.fault.is_empty() && o.kind != "fakecounted");
        if once && plain && !installs.is_empty() && !last.exit_panic && rng.chance(1, 8) {
            last.exit_mprotect_fail = Some(rng.below(3));
            classes.push("exit-mprotect-refused".into());
        }
    }
    classes.sort();
    classes.dedup();
    NScenario {
        engine: "N".into(),
        profile: profile.into(),
        variant: "x86_64-linux-native".into(),
        seed,
        index,
        arenas,
        funcs,
        reserves,
        targets,
        bystanders,
        forwards,
        import_stubs,
        prologues: !tight,
        pitch,
        lifetimes,
        classes,
    }
}

// ---------------------------------------------------------------------------------- execution

#[derive(Clone, Debug)]
enum Inst {
    Val(u32),
    Bool(bool),
}

struct Run<'a> {
    sc: &'a NScenario,
    sh: &'a Shared,
    viol: Vec<Value>,
    probes: BTreeMap<String, u64>,
    faults: BTreeMap<String, u64>,
    model: Vec<Vec<Inst>>,
    named: Vec<bool>,
    base: snap::ExecSnap,
    /// non-pristine bytes after the previous observation point
    prev: BTreeMap<u64, u8>,
    digest: u64,
    calls: u64,
    installs_ok: u64,
    installs_refused: u64,
    events: u64,
    anon_before: Vec<(u64, u64)>,
    orphans: Vec<(u64, u64)>,
    pending_expectation: bool,
}

fn mixd(h: u64, v: u64) -> u64 {
    let mut s = h ^ v.wrapping_mul(0x9E37_79B9_7F4A_7C15);
    simos::rng::splitmix64(&mut s)
}

fn panic_msg(p: &Box<dyn std::any::Any + Send>) -> String {
    if let Some(s) = p.downcast_ref::<String>() {
        s.clone()
    } else if let Some(s) = p.downcast_ref::<&str>() {
        s.to_string()
    } else {
        "<non-string payload>".into()
    }
}

struct Injected;

impl<'a> Run<'a> {
    fn v(&mut self, tag: &str, props: &[&str], detail: String) {
        if self.viol.len() < 16 && !self.viol.iter().any(|x| x["tag"] == tag) {
            self.viol.push(json!({"tag": tag, "props": props, "detail": detail}));
        }
    }
    fn probe(&mut self, k: &str) {
        *self.probes.entry(k.into()).or_insert(0) += 1;
    }

    fn target_addr(&self, t: usize) -> u64 {
        let tr = &self.sc.targets[t];
        if tr.kind == "synth" {
            self.sc.funcs[tr.idx].0
        } else {
            real_target_addr(tr.idx)
        }
    }
    /// extent of the function: what an installation may overwrite at most
    fn slot_len(&self, t: usize) -> u64 {
        if self.sc.targets[t].kind == "synth" {
            self.sc.pitch
        } else {
            16
        }
    }
    fn target_orig(&self, t: usize) -> u32 {
        let tr = &self.sc.targets[t];
        if tr.kind == "synth" {
            self.sc.funcs[tr.idx].1
        } else {
            real_target_orig(tr.idx)
        }
    }
    fn call_target(&self, t: usize) -> u32 {
        let tr = &self.sc.targets[t];
        if tr.kind == "synth" {
            arena::call_u32(self.sc.funcs[tr.idx].0)
        } else {
            real_target_call(tr.idx)
        }
    }
    fn sig(&self, t: usize) -> &'static str {
        if self.sc.targets[t].ret == "bool" {
            "fn() -> bool"
        } else {
            "fn() -> u32"
        }
    }
    fn target_ptr(&self, t: usize, unchecked: bool) -> FuncPtr {
        let tr = &self.sc.targets[t];
        if tr.kind == "real" && !unchecked {
            return real_target_ptr(tr.idx);
        }
        unsafe { FuncPtr::new(self.target_addr(t) as *const (), if unchecked { "" } else { self.sig(t) }) }
    }

    fn expect(&self, t: usize) -> (u32, u32) {
        // (value, mask)
        match self.model[t].last() {
            None => (self.target_orig(t), if self.sc.targets[t].ret == "bool" { 0xFF } else { u32::MAX }),
            Some(Inst::Val(v)) => (*v, if self.sc.targets[t].ret == "bool" { 0xFF } else { u32::MAX }),
            Some(Inst::Bool(b)) => (*b as u32, 0xFF),
        }
    }

    fn do_call(&mut self, lt: usize, oi: usize, t: usize, threads: usize, after_drop: Option<bool>) {
        let (want, mask) = self.expect(t);
        let live = !self.model[t].is_empty();
        self.sh.note(if after_drop.is_some() { PH_CALL_AFTER } else if live { PH_CALL_LIVE } else { PH_OTHER }, lt as u64, oi as u64, after_drop.map(|p| p as u64).unwrap_or(0));
        let mut got: Vec<u32> = vec![self.call_target(t)];
        if threads == usize::MAX {
            // the same call in a forked child: it inherited the patched code and must inherit
            // whatever the patch leads to
            let tr = self.sc.targets[t].clone();
            let addr = self.target_addr(t);
            match in_fork(move || if tr.kind == "synth" { arena::call_u32(addr) as u64 } else { real_target_call(tr.idx) as u64 }) {
                Ok(v) => got.push(v as u32),
                Err(e) => {
                    let props: Vec<&str> = if live { vec!["C01", "C13"] } else { vec!["C03"] };
                    self.v("call-in-forked-child-died", &props, format!("lifetime {lt} op {oi}: a child forked while target #{t} at {:#x} {} died calling it ({})", self.target_addr(t), if live { "was faked" } else { "was not faked" }, if e > 0 { format!("signal {e}") } else { format!("status {}", -e) }));
                }
            }
            self.probe("calls_in_a_forked_child");
        } else if threads > 0 {
            let tr = self.sc.targets[t].clone();
            let addr = self.target_addr(t);
            // one thread at a time: how many thread stacks glibc keeps mapped must not depend on
            // how the threads happen to overlap, because the kernel's later placement decisions do
            for _ in 0..threads {
                let tr = tr.clone();
                let h = std::thread::spawn(move || if tr.kind == "synth" { arena::call_u32(addr) } else { real_target_call(tr.idx) });
                got.push(h.join().unwrap_or(0xDEAD_0000));
            }
            self.probe("calls_from_other_threads");
        }
        self.calls += got.len() as u64;
        for g in got {
            self.digest = mixd(self.digest, g as u64);
            if g & mask != want & mask {
                let props: Vec<&str> = match after_drop {
                    Some(true) => vec!["C02", "C05"],
                    Some(false) => vec!["C02"],
                    None => {
                        if live {
                            vec!["C01", "C02"]
                        } else if self.named[t] {
                            vec!["C02"]
                        } else {
                            vec!["C03"]
                        }
                    }
                };
                let tag = if after_drop.is_some() { "call-after-scope-exit-not-original" } else if live { "call-does-not-reach-latest-fake" } else { "unfaked-function-changed-behaviour" };
                self.v(tag, &props, format!("lifetime {lt} op {oi}: calling target #{t} at {:#x} returned {:#x}, the reference model expects {:#x} (mask {:#x})", self.target_addr(t), g, want, mask));
            }
        }
        self.sh.note(PH_OTHER, lt as u64, oi as u64, 0);
    }

    fn check_bystanders(&mut self, when: &str) {
        for b in self.sc.bystanders.clone() {
            let (a, id) = self.sc.funcs[b];
            let g = arena::call_u32(a);
            if g != id {
                self.v("bystander-changed-behaviour", &["C03"], format!("{when}: neighbour function at {:#x} returned {:#x} instead of {:#x}", a, g, id));
            }
        }
        if real_bystander_call() != 1102 {
            self.v("bystander-changed-behaviour", &["C03"], format!("{when}: the other instantiation of the generic function no longer returns 1102"));
        }
    }

    /// Observation point after an API call: executable memory vs. pristine snapshot + ledger.
    fn observe(&mut self, when: &str, ledger: &[NEv], expect_clean: bool) {
        let d = snap::diff_now(&self.base);
        self.events += ledger.len() as u64;
        for ev in ledger {
            let (a, b, c) = match ev {
                NEv::Mmap { hint, len, ret, .. } => (1u64, *hint ^ *len, *ret),
                NEv::Munmap { addr, len, ret } => (2, *addr ^ *len, *ret as u64),
                NEv::Mprotect { addr, len, ret, .. } => (3, *addr ^ *len, *ret as u64),
                NEv::Flush { start, end, .. } => (4, *start, *end),
            };
            self.digest = mixd(mixd(mixd(self.digest, a), b), c);
        }
        // ---- C03: changed bytes only inside entry slots of named targets
        let slots: Vec<(u64, u64)> = (0..self.sc.targets.len()).filter(|t| self.named[*t]).map(|t| (self.target_addr(t), self.target_addr(t) + self.slot_len(t))).collect();
        let mut now: BTreeMap<u64, u8> = BTreeMap::new();
        for (a, l) in &d.changed {
            let inside = slots.iter().any(|(s, e)| *a >= *s && a + l <= *e);
            if !inside {
                self.v("executable-bytes-changed-outside-entry-slots", &["C03"], format!("{when}: bytes [{:#x},{:#x}) differ from the pristine image; allowed entry slots {:x?}", a, a + l, slots));
            }
            for i in 0..*l {
                let x = a + i;
                now.insert(x, unsafe { *(x as *const u8) });
            }
        }
        if !d.vanished.is_empty() {
            self.v("executable-mapping-vanished", &["C03", "C12"], format!("{when}: executable pages no longer mapped: {:x?}", &d.vanished[..d.vanished.len().min(4)]));
        }
        if expect_clean && !d.changed.is_empty() {
            self.v("not-restored-after-scope-exit", &["C02"], format!("{when}: bytes still differ from the pristine image at {:x?}", &d.changed[..d.changed.len().min(4)]));
        }
        // ---- C12: executable anonymous mappings vs live installations
        let live: u64 = self.model.iter().map(|m| m.len() as u64).sum();
        // mappings orphaned by an installation that failed for a reason other than range are
        // outside C11/C12 (recorded as a probe), so they are not counted against the ledger
        let appeared: Vec<(u64, u64, String)> = d.appeared.iter().filter(|(s, e, _)| !self.orphans.iter().any(|(os, oe)| s >= os && e <= oe)).cloned().collect();
        let pages: u64 = d.appeared.iter().map(|(s, e, _)| (e - s) / PS).sum::<u64>() - self.orphans.iter().map(|(s, e)| (e - s) / PS).sum::<u64>().min(d.appeared.iter().map(|(s, e, _)| (e - s) / PS).sum::<u64>());
        if expect_clean {
            if pages != 0 {
                self.v("mapping-leaked-after-scope-exit", &["C12"], format!("{when}: executable mappings that did not exist before the first lifetime: {:x?} (orphans of failed installs, not counted: {:x?})", d.appeared, self.orphans));
            }
        } else if pages > live {
            self.v("more-trampoline-pages-than-live-installs", &["C12", "C11"], format!("{when}: {} executable anonymous page(s) {:x?} for {} live installation(s)", pages, d.appeared, live));
        }
        // ---- ledger: every munmap names a range this injector mapped, exactly once
        // (kept across calls in self via a small live set rebuilt from the whole ledger is not
        // needed: check within the call for rejected placements, and across calls by `appeared`)
        let mut mapped: Vec<(u64, u64)> = Vec::new();
        for ev in ledger {
            match ev {
                NEv::Mmap { ret, len, .. } if *ret != u64::MAX => mapped.push((*ret, *len)),
                NEv::Munmap { addr, len, ret } => {
                    let known_here = mapped.iter().position(|(a, l)| a == addr && l == len);
                    if let Some(p) = known_here {
                        mapped.remove(p);
                        self.probe("placement_rejected_and_unmapped");
                    } else if !expect_clean && !when.contains("scope exit") {
                        self.v("munmap-of-range-not-mapped-by-this-call", &["C12"], format!("{when}: munmap({:#x}, {}) during an installation names nothing this installation mapped", addr, len));
                    }
                    if *ret != 0 {
                        self.v("munmap-failed", &["C12"], format!("{when}: munmap({:#x}, {}) failed", addr, len));
                    }
                }
                _ => {}
            }
        }
        // ---- C17: every byte that changed during this call lies in a flushed range whose copied
        // content is the final content
        let mut changed_here: Vec<u64> = Vec::new();
        for (a, v) in &now {
            if self.prev.get(a) != Some(v) {
                changed_here.push(*a);
            }
        }
        for a in self.prev.keys() {
            if !now.contains_key(a) {
                changed_here.push(*a); // restored to pristine during this call
            }
        }
        let mut unflushed: Vec<u64> = Vec::new();
        for a in &changed_here {
            let cur = unsafe { *(*a as *const u8) };
            let ok = ledger.iter().any(|ev| match ev {
                NEv::Flush { start, end, bytes } => a >= start && a < end && bytes.get((*a - *start) as usize) == Some(&cur),
                _ => false,
            });
            if !ok {
                unflushed.push(*a);
            }
        }
        // trampoline contents (non-zero bytes of mappings that appeared during this call)
        for (s, _e, _) in &appeared {
            let fresh = ledger.iter().any(|ev| matches!(ev, NEv::Mmap { ret, .. } if ret == s));
            if !fresh {
                continue;
            }
            for i in 0..64u64 {
                let cur = unsafe { *((s + i) as *const u8) };
                if cur != 0 {
                    let a = s + i;
                    let ok = ledger.iter().any(|ev| match ev {
                        NEv::Flush { start, end, bytes } => a >= *start && a < *end && bytes.get((a - *start) as usize) == Some(&cur),
                        _ => false,
                    });
                    if !ok {
                        unflushed.push(a);
                    }
                }
            }
        }
        if !unflushed.is_empty() {
            self.v("code-written-without-covering-flush", &["C17"], format!("{when}: {} modified code byte(s) (first at {:#x}) are not covered by a flush request made after their final content was written", unflushed.len(), unflushed[0]));
        }
        self.prev = now;
    }

    fn install(&mut self, inj: &mut InjectorPP, lt: usize, oi: usize, op: &NOp) {
        let t = op.target;
        let tr = self.sc.targets[t].clone();
        let (faddr, fid) = self.sc.funcs[op.fake];
        let what = format!("lifetime {lt} op {oi} ({} on target #{t} at {:#x}{})", op.kind, self.target_addr(t), if op.fault.is_empty() { String::new() } else { format!(", fault {}", op.fault) });
        self.sh.note(PH_INSTALL, lt as u64, oi as u64, 0);
        let slot_before: Vec<u8> = unsafe { std::slice::from_raw_parts(self.target_addr(t) as *const u8, self.slot_len(t) as usize).to_vec() };
        let mut f = Faults::default();
        match op.fault.as_str() {
            "enomem" => f.enomem_all = true,
            "enomem_transient" => f.enomem_first = 1 + (op.fake as u64 % 5),
            "mprotect_second_page" => {
                // the page after the one holding the first entry byte can never be made writable
                let a = self.target_addr(t);
                let second = (a & !(PS - 1)) + PS;
                if second < a + 5 && self.model.iter().all(|m| m.is_empty()) {
                    f.mprotect_deny = Some((second, second + PS));
                }
            }
            "mprotect" => f.mprotect_fail_next = true,
            _ => {}
        }
        interpose::set_faults(f);
        let mark = interpose::ledger_len();
        let mut val = Inst::Val(fid);
        let sig = self.sig(t);
        let target_ptr = self.target_ptr(t, op.kind == "unchecked" || op.kind.ends_with("_unchecked"));
        // "another thread is scheduled at every OS-call boundary of the installation and calls
        // the functions": a function that already has a fake must never show anything but a fake
        let new_val: (u32, u32) = match op.kind.as_str() {
            "boolean" => (op.value as u32, 0xFF),
            "closure" => (2002, u32::MAX),
            "fakemacro" => (2003, u32::MAX),
            "fakecounted" => (2004, u32::MAX),
            "closure_unchecked" => (2005, u32::MAX),
            "func_unchecked" => (2000, u32::MAX),
            "realfn" => (if op.value { 2000 } else { 2001 }, u32::MAX),
            "libfake" | "libfake_unchecked" => (if tr.idx == 4 { 7001 } else { 7002 }, u32::MAX),
            _ => (fid, if tr.ret == "bool" { 0xFF } else { u32::MAX }),
        };
        let mut watch: Vec<(String, usize, u64, Vec<(u32, u32)>)> = Vec::new();
        for ti in 0..self.sc.targets.len() {
            let mut allowed = vec![self.expect(ti)];
            if ti == t {
                allowed.push(new_val);
            }
            let trr = &self.sc.targets[ti];
            watch.push((trr.kind.clone(), trr.idx, self.target_addr(ti), allowed));
        }
        let findings: std::rc::Rc<std::cell::RefCell<Vec<String>>> = Default::default();
        let f2 = findings.clone();
        let obs_n: std::rc::Rc<std::cell::Cell<u64>> = Default::default();
        let obs_n2 = obs_n.clone();
        let by: Vec<(u64, u32)> = self.sc.bystanders.iter().map(|b| self.sc.funcs[*b]).collect();
        let sh_ptr = self.sh as *const Shared as usize;
        let (lt_n, oi_n) = (lt as u64, oi as u64);
        interpose::set_observer(Some(Box::new(move |point| {
            let sh = unsafe { &*(sh_ptr as *const Shared) };
            for (kind, idx, addr, allowed) in &watch {
                sh.note(PH_OBSERVER, lt_n, oi_n, 0);
                let g = if kind == "synth" { arena::call_u32(*addr) } else { real_target_call(*idx) };
                obs_n2.set(obs_n2.get() + 1);
                if !allowed.iter().any(|(v, m)| g & m == v & m) {
                    f2.borrow_mut().push(format!("at the {point} boundary a call of the function at {:#x} from another thread returned {:#x}; allowed (value, mask) {:x?}", addr, g, allowed));
                }
            }
            // functions that were never named keep running their own code at every instant
            for (a, id) in &by {
                sh.note(PH_OBSERVER, lt_n, oi_n, 1);
                let g = arena::call_u32(*a);
                obs_n2.set(obs_n2.get() + 1);
                if g != *id {
                    f2.borrow_mut().push(format!("at the {point} boundary the un-named neighbour at {:#x} returned {:#x} instead of {:#x}", a, g, id));
                }
            }
            sh.note(PH_INSTALL, lt_n, oi_n, 0);
        })));
        interpose::arm(true);
        let r = catch_unwind(AssertUnwindSafe(|| unsafe {
            match op.kind.as_str() {
                "raw" => inj.when_called(target_ptr).will_execute_raw(FuncPtr::new(faddr as *const (), sig)),
                "checked" => inj.when_called(target_ptr).will_execute((FuncPtr::new(faddr as *const (), sig), CallCountVerifier::Dummy)),
                "unchecked" => inj.when_called_unchecked(target_ptr).will_execute_raw_unchecked(FuncPtr::new(faddr as *const (), "")),
                "boolean" => inj.when_called(target_ptr).will_return_boolean(op.value),
                "closure" => inj.when_called(target_ptr).will_execute_raw(injectorpp::closure!(|| 2002, fn() -> u32)),
                "fakemacro" => inj.when_called(target_ptr).will_execute(injectorpp::fake!(func_type: fn() -> u32, returns: 2003)),
                // an expectation that is never met: the verifier panics at scope exit
                "fakecounted" => inj.when_called(target_ptr).will_execute(injectorpp::fake!(func_type: fn() -> u32, returns: 2004, times: 1_000_000)),
                "closure_unchecked" => inj.when_called_unchecked(target_ptr).will_execute_raw_unchecked(injectorpp::closure_unchecked!(|| 2005, fn() -> u32)),
                "func_unchecked" => inj.when_called_unchecked(target_ptr).will_execute_raw_unchecked(injectorpp::func_unchecked!(real_f0)),
                "realfn" => inj.when_called(target_ptr).will_execute_raw(if op.value { injectorpp::func!(fn (real_f0)() -> u32) } else { injectorpp::func!(fn (real_f1)() -> u32) }),
                // library code (libc) faked by a function of the test image: far apart, long trampoline form
                "libfake" => inj.when_called(target_ptr).will_execute_raw(if tr.idx == 4 { injectorpp::func!(lib_fake_labs, unsafe extern "C" fn(libc::c_long) -> libc::c_long) } else { injectorpp::func!(lib_fake_atoi, unsafe extern "C" fn(*const libc::c_char) -> libc::c_int) }),
                "libfake_unchecked" => inj.when_called_unchecked(target_ptr).will_execute_raw_unchecked(if tr.idx == 4 { injectorpp::func_unchecked!(lib_fake_labs) } else { injectorpp::func_unchecked!(lib_fake_atoi) }),
                k => panic!("harness: unknown kind {k}"),
            }
        }));
        interpose::arm(false);
        interpose::set_observer(None);
        self.calls += obs_n.get();
        if obs_n.get() > 0 {
            *self.probes.entry("calls_interleaved_with_installation".into()).or_insert(0) += obs_n.get();
        }
        if let Some(f) = findings.borrow().first() {
            self.v("call-during-installation-saw-neither-old-nor-new-behaviour", &["C01", "C02"], format!("lifetime {lt} op {oi} ({} on target #{t}): {f}", op.kind));
        }
        let fl = interpose::faults();
        if fl.fired_enomem > 0 {
            *self.faults.entry("mmap_enomem_injected".into()).or_insert(0) += fl.fired_enomem;
        }
        if fl.fired_mprotect > 0 {
            *self.faults.entry("mprotect_eacces_injected".into()).or_insert(0) += fl.fired_mprotect;
        }
        interpose::set_faults(Faults::default());
        let ledger = interpose::ledger_since(mark);
        if op.kind == "fakecounted" {
            self.pending_expectation = true;
        }
        match op.kind.as_str() {
            "boolean" => val = Inst::Bool(op.value),
            "closure" => val = Inst::Val(2002),
            "fakemacro" => val = Inst::Val(2003),
            "fakecounted" => val = Inst::Val(2004),
            "closure_unchecked" => val = Inst::Val(2005),
            "func_unchecked" => val = Inst::Val(2000),
            "libfake" | "libfake_unchecked" => val = Inst::Val(if tr.idx == 4 { 7001 } else { 7002 }),
            "realfn" => val = Inst::Val(if op.value { 2000 } else { 2001 }),
            _ => {}
        }
        match r {
            Ok(()) => {
                self.installs_ok += 1;
                self.named[t] = true;
                self.model[t].push(val);
                if !op.fault.is_empty() && op.fault != "enomem_transient" && (fl.fired_enomem > 0 || fl.fired_mprotect > 0) {
                    // legitimate for an OS call the installation does not depend on; the function is
                    // judged by its behaviour (the model says: faked)
                    self.probe("install_succeeded_although_an_os_call_was_refused");
                }
                let off = self.target_addr(t) % PS;
                if off + 5 > PS {
                    self.probe("entry_spans_page");
                }
                if self.target_addr(t) < WIN {
                    self.probe("window_clipped_at_zero");
                }
                // which trampoline form?  (observed, not assumed: first opcode of the new mapping)
                for ev in &ledger {
                    if let NEv::Flush { bytes, .. } = ev {
                        if bytes.len() >= 12 && bytes[0] == 0x48 && bytes[1] == 0xB8 {
                            self.probe("long_form_in_jit");
                        } else if bytes.len() == 5 && bytes[0] == 0xE9 && tr.kind == "synth" {
                            self.probe("short_form_seen");
                        }
                    }
                }
                self.observe(&what, &ledger, false);
            }
            Err(p) => {
                self.installs_refused += 1;
                let msg = panic_msg(&p);
                *self.faults.entry("install_panicked".into()).or_insert(0) += 1;
                if msg.contains("Failed to allocate") {
                    self.probe("scan_exhausted");
                }
                let slot_now: Vec<u8> = unsafe { std::slice::from_raw_parts(self.target_addr(t) as *const u8, self.slot_len(t) as usize).to_vec() };
                if slot_now != slot_before {
                    self.v("failed-install-modified-function", &["C11", "C05", "C01"], format!("{what}: panicked with {msg:?} but the entry bytes changed from {:02x?} to {:02x?}", slot_before, slot_now));
                }
                // mappings this failed installation made and kept
                let mut kept: Vec<(u64, u64)> = Vec::new();
                for ev in &ledger {
                    match ev {
                        NEv::Mmap { ret, len, .. } if *ret != u64::MAX => kept.push((*ret, (*len + PS - 1) / PS * PS)),
                        NEv::Munmap { addr, .. } => kept.retain(|(a, _)| a != addr),
                        _ => {}
                    }
                }
                if !kept.is_empty() {
                    // only an injected protection failure excuses a mapping that stays behind
                    if fl.fired_mprotect == 0 {
                        self.v("failed-install-left-mapping", &["C11"], format!("{what}: panicked with {msg:?} leaving {:x?} mapped", kept));
                    } else {
                        self.probe("mapping_orphaned_by_failed_install");
                        for (a, l) in kept {
                            self.orphans.push((a, a + l));
                        }
                    }
                }
                self.observe(&format!("{what} [refused: {msg}]"), &ledger, false);
            }
        }
        self.check_bystanders(&what);
        self.sh.note(PH_OTHER, lt as u64, oi as u64, 0);
    }
}

pub fn setup_memory(sc: &NScenario) -> Result<(), String> {
    for (b, p) in &sc.arenas {
        if !arena::map_rw(*b, p * PS) {
            return Err(format!("arena at {b:#x} not available"));
        }
    }
    for (k, (a, id)) in sc.funcs.iter().enumerate() {
        // entry instructions vary like those of compiled functions (seeded by position)
        arena::write_fn_with_prologue(*a, *id, if sc.prologues { (k * 7 + (*a as usize >> 4)) % arena::PROLOGUES.len() } else { 0 });
    }
    for (i, (f, d)) in sc.forwards.iter().enumerate() {
        if let (Some((fa, _)), Some((da, _))) = (sc.funcs.get(*f), sc.funcs.get(*d)) {
            if sc.import_stubs.contains(&i) && sc.pitch >= 16 {
                arena::write_import_stub(*fa, *da);
            } else {
                arena::write_jmp_fn(*fa, *da);
            }
        }
    }
    for (b, p) in &sc.arenas {
        arena::seal_rx(*b, p * PS);
    }
    for (s, l) in &sc.reserves {
        if !arena::reserve(*s, *l) {
            return Err(format!("reservation at {s:#x}+{l:#x} not available"));
        }
    }
    Ok(())
}

/// Runs inside the forked child.
/// Sanity rules for a (possibly minimised / hand-edited) scenario: functions do not overlap.
fn well_formed(sc: &NScenario) -> Result<(), String> {
    if sc.pitch != 8 && sc.pitch != 16 {
        return Err("pitch".into());
    }
    // `<prologue> mov eax, id; ret` needs up to 11 bytes, without prologue 6
    if sc.pitch < 16 && sc.prologues {
        return Err("prologues need 16-byte slots".into());
    }
    for (li, lt) in sc.lifetimes.iter().enumerate() {
        if lt.exit_mprotect_fail.is_some() {
            let mut seen = std::collections::BTreeSet::new();
            let once = lt.ops.iter().filter(|o| o.op == "install").all(|o| seen.insert(o.target));
            if !once || li + 1 != sc.lifetimes.len() {
                return Err("exit_mprotect_fail needs the last lifetime with every function faked at most once".into());
            }
        }
    }
    for (i, (a, _)) in sc.funcs.iter().enumerate() {
        for (b, _) in &sc.funcs[i + 1..] {
            if (*a as i64 - *b as i64).unsigned_abs() < sc.pitch {
                return Err(format!("functions overlap: {a:#x} {b:#x}"));
            }
        }
        if !sc.arenas.iter().any(|(s, p)| *a >= *s && *a + sc.pitch <= *s + *p * PS) {
            return Err(format!("function {a:#x} outside the arenas"));
        }
    }
    Ok(())
}

pub fn execute(sc: &NScenario, sh: &Shared) -> Value {
    sh.note(PH_SETUP, 0, 0, 0);
    if let Err(e) = well_formed(sc) {
        return json!({"skipped": format!("ill-formed scenario: {e}")});
    }
    if let Err(e) = setup_memory(sc) {
        return json!({"skipped": e});
    }
    let base = snap::exec_snapshot();
    let mut run = Run {
        sc,
        sh,
        viol: Vec::new(),
        probes: BTreeMap::new(),
        faults: BTreeMap::new(),
        model: vec![Vec::new(); sc.targets.len()],
        named: vec![false; sc.targets.len()],
        base,
        prev: BTreeMap::new(),
        digest: 0x5EED,
        calls: 0,
        installs_ok: 0,
        installs_refused: 0,
        events: 0,
        anon_before: anon_pages(&[]),
        orphans: Vec::new(),
        pending_expectation: false,
    };
    // sanity: originals answer before anything happens
    for t in 0..sc.targets.len() {
        run.do_call(0, 0, t, 0, None);
    }
    for (li, lt) in sc.lifetimes.iter().enumerate() {
        for n in run.named.iter_mut() {
            *n = false;
        }
        if lt.pre.iter().any(|e| e == "reprotect_text") {
            // not an injector action: the interposer is not armed
            for (a, p) in &sc.arenas {
                arena::seal_rx(*a, *p * PS);
            }
            *run.faults.entry("env_text_reprotected_between_lifetimes".into()).or_insert(0) += 1;
        }
        if lt.pre.iter().any(|e| e == "fork_lifetime") {
            // The child fakes the first synthetic target with the last synthetic function, calls
            // it, lets the injector go and calls it again.  What it does stays in the child: the
            // parent's code is untouched while it lives and afterwards.
            if let Some(ti) = sc.targets.iter().position(|t| t.kind == "synth" && t.ret != "bool") {
                let taddr = run.target_addr(ti);
                let (faddr, fid) = *sc.funcs.last().unwrap();
                let orig = run.target_orig(ti);
                if faddr != taddr {
                    let r = in_fork(move || unsafe {
                        let mut inj = InjectorPP::new();
                        // a crowded neighbourhood may leave no room for the trampoline: a refusal is a panic
                        let refused = catch_unwind(AssertUnwindSafe(|| {
                            inj.when_called(FuncPtr::new(taddr as *const (), "fn() -> u32")).will_execute_raw(FuncPtr::new(faddr as *const (), "fn() -> u32"));
                        }))
                        .is_err();
                        let v1 = arena::call_u32(taddr) as u64;
                        drop(inj);
                        let v2 = arena::call_u32(taddr) as u64;
                        ((refused as u64) << 63) | (v1 << 32) | v2
                    });
                    run.probe("injector_lifetime_in_a_forked_child");
                    match r {
                        Ok(v) => {
                            let refused = v >> 63 == 1;
                            let (v1, v2) = (((v >> 32) & 0x7fff_ffff) as u32, v as u32);
                            if refused {
                                run.probe("forked_child_installation_refused");
                                if sc.reserves.is_empty() {
                                    run.v("well-formed-installation-refused", &["C01"], format!("lifetime {li}: in a forked child the installation on target #{ti} panicked although the neighbourhood has room"));
                                }
                                if v1 != orig || v2 != orig {
                                    run.v("refused-install-left-traces", &["C05", "C03"], format!("lifetime {li}: in a forked child the installation on target #{ti} at {taddr:#x} was refused, yet the function returned {v1:#x} then {v2:#x} (the original gives {orig:#x})"));
                                }
                            } else if v1 != fid || v2 != orig {
                                run.v("forked-child-lifetime-misbehaves", &["C01", "C02", "C03", "C10"], format!("lifetime {li}: in a forked child, target #{ti} at {taddr:#x} returned {v1:#x} while faked (the fake gives {fid:#x}) and {v2:#x} after its injector went (the original gives {orig:#x})"));
                            }
                        }
                        Err(e) => run.v("forked-child-lifetime-died", &["C01", "C02", "C03", "C10"], format!("lifetime {li}: a forked child died during its own injector lifetime ({})", if e > 0 { format!("signal {e}") } else { format!("status {}", -e) })),
                    }
                    // nothing of that may show in this process
                    run.observe(&format!("lifetime {li}: after a forked child's injector lifetime"), &[], true);
                    let g = run.call_target(ti);
                    if g != orig {
                        run.v("unfaked-function-changed-behaviour", &["C03", "C10"], format!("lifetime {li}: after a forked child's injector lifetime, target #{ti} at {taddr:#x} returns {g:#x} in THIS process (original {orig:#x})"));
                    }
                }
            }
        }
        run.pending_expectation = false;
        let mut inj_holder: Option<InjectorPP> = None;
        let r = catch_unwind(AssertUnwindSafe(|| {
            inj_holder = Some(InjectorPP::new());
        }));
        if r.is_err() {
            run.v("injector-creation-panicked", &["C05"], format!("lifetime {li}: InjectorPP::new() panicked"));
            break;
        }
        let mut inj = inj_holder.take().unwrap();
        for (oi, op) in lt.ops.iter().enumerate() {
            match op.op.as_str() {
                "install" => run.install(&mut inj, li, oi, op),
                "call" => run.do_call(li, oi, op.target, 0, None),
                "call_threads" => run.do_call(li, oi, op.target, 4, None),
                "call_fork" => run.do_call(li, oi, op.target, usize::MAX, None),
                _ => {}
            }
        }
        // scope exit
        sh.note(PH_DROP, li as u64, 0, lt.exit_panic as u64);
        let mark = interpose::ledger_len();
        // another thread calls the functions at every OS-call boundary of the restoration: each
        // function shows one of its fakes of this lifetime or its original, never anything else
        let mut watch: Vec<(String, usize, u64, Vec<(u32, u32)>)> = Vec::new();
        for ti in 0..sc.targets.len() {
            let mask = if sc.targets[ti].ret == "bool" { 0xFF } else { u32::MAX };
            let mut allowed: Vec<(u32, u32)> = vec![(run.target_orig(ti), mask)];
            for inst in &run.model[ti] {
                allowed.push(match inst {
                    Inst::Val(v) => (*v, mask),
                    Inst::Bool(b) => (*b as u32, 0xFF),
                });
            }
            watch.push((sc.targets[ti].kind.clone(), sc.targets[ti].idx, run.target_addr(ti), allowed));
        }
        let findings: std::rc::Rc<std::cell::RefCell<Vec<String>>> = Default::default();
        let f2 = findings.clone();
        let obs_n: std::rc::Rc<std::cell::Cell<u64>> = Default::default();
        let obs_n2 = obs_n.clone();
        interpose::set_observer(Some(Box::new(move |point| {
            for (kind, idx, addr, allowed) in &watch {
                let g = if kind == "synth" { arena::call_u32(*addr) } else { real_target_call(*idx) };
                obs_n2.set(obs_n2.get() + 1);
                if !allowed.iter().any(|(v, m)| g & m == v & m) {
                    f2.borrow_mut().push(format!("at the {point} boundary a call of the function at {:#x} from another thread returned {:#x}; allowed (value, mask) {:x?}", addr, g, allowed));
                }
            }
        })));
        let exit_fault = if lt.exit_panic || li + 1 != sc.lifetimes.len() { None } else { lt.exit_mprotect_fail };
        if let Some(k) = exit_fault {
            interpose::set_faults(Faults { mprotect_fail_after: k + 1, ..Default::default() });
        }
        interpose::arm(true);
        let r = catch_unwind(AssertUnwindSafe(move || {
            let _inj = inj;
            if lt.exit_panic {
                std::panic::panic_any(Injected);
            }
        }));
        interpose::arm(false);
        interpose::set_observer(None);
        let exit_fault_fired = exit_fault.is_some() && interpose::faults().fired_mprotect > 0;
        interpose::set_faults(Faults::default());
        run.calls += obs_n.get();
        if obs_n.get() > 0 {
            *run.probes.entry("calls_interleaved_with_restoration".into()).or_insert(0) += obs_n.get();
        }
        if let Some(f) = findings.borrow().first() {
            run.v("call-during-restoration-saw-neither-a-fake-nor-the-original", &["C02", "C01"], format!("lifetime {li} scope exit: {f}"));
        }
        let ledger = interpose::ledger_since(mark);
        if lt.exit_panic {
            *run.faults.entry("injected_panic_at_scope_exit".into()).or_insert(0) += 1;
        }
        if exit_fault_fired {
            *run.faults.entry("mprotect_refused_during_restoration".into()).or_insert(0) += 1;
            if let Err(p) = &r {
                if panic_msg(p).to_lowercase().contains("protect") {
                    // The OS refused part of the restoration and the library said so.  Nothing
                    // claims it completes, but a function whose entry still carries the injector's
                    // branch must still reach its fake: every function answers with its original
                    // or with one of its fakes of this lifetime.  The scenario ends here.
                    for ti in 0..sc.targets.len() {
                        let mask = if sc.targets[ti].ret == "bool" { 0xFF } else { u32::MAX };
                        let mut allowed: Vec<(u32, u32)> = vec![(run.target_orig(ti), mask)];
                        for inst in &run.model[ti] {
                            allowed.push(match inst {
                                Inst::Val(v) => (*v, mask),
                                Inst::Bool(b) => (*b as u32, 0xFF),
                            });
                        }
                        let g = run.call_target(ti);
                        run.calls += 1;
                        if !allowed.iter().any(|(v, m)| g & m == v & m) {
                            run.v("function-incoherent-after-refused-restoration", &["C01", "C02"], format!("lifetime {li}: after the restoration was refused, target #{ti} at {:#x} returned {:#x}; allowed (value, mask) {:x?}", run.target_addr(ti), g, allowed));
                        }
                    }
                    sh.note(PH_DONE, 0, 0, 0);
                    let (mm, mu, mp, fl) = interpose::counts();
                    return json!({
                        "violations": run.viol,
                        "digest": format!("{:016x}", run.digest),
                        "probes": run.probes,
                        "faults": run.faults,
                        "events": run.events + mm,
                        "calls": run.calls,
                        "installs_ok": run.installs_ok,
                        "installs_refused": run.installs_refused,
                        "os_calls": {"mmap": mm, "munmap": mu, "mprotect": mp, "flush": fl},
                    });
                }
            }
        }
        match &r {
            Err(p) if p.is::<Injected>() => {}
            Err(p) => {
                let msg = panic_msg(p);
                if run.pending_expectation && !lt.exit_panic && msg.contains("expected to be called") {
                    *run.faults.entry("verification_panic_at_scope_exit".into()).or_insert(0) += 1;
                } else {
                    run.v("drop-panicked", &["C02", "C05"], format!("lifetime {li}: scope exit raised {:?}", msg));
                }
            }
            Ok(()) => {
                if run.pending_expectation && !lt.exit_panic {
                    run.v("unsatisfied-expectation-not-reported", &["C06"], format!("lifetime {li}: a fake with times: 1000000 was installed, yet scope exit did not panic"));
                }
            }
        }
        for m in run.model.iter_mut() {
            m.clear();
        }
        let what = format!("lifetime {li} scope exit ({})", if lt.exit_panic { "unwinding" } else { "drop" });
        run.observe(&what, &ledger, true);
        for t in 0..sc.targets.len() {
            run.do_call(li, 999, t, 0, Some(lt.exit_panic));
        }
        run.check_bystanders(&what);
        // stop at the first violation that concerns the property being checked (see vsim)
        let want = std::env::var("VERIF_WANT_PROP").ok();
        let stop = run.viol.iter().any(|v| match &want {
            Some(p) => v["props"].as_array().map(|a| a.iter().any(|x| x.as_str() == Some(p.as_str()))).unwrap_or(true),
            None => true,
        });
        if stop {
            break;
        }
    }
    let after = anon_pages(&run.orphans);
    if after != run.anon_before {
        run.v("anonymous-executable-mappings-differ-at-end", &["C12"], format!("before the first lifetime: {:x?}; after the last: {:x?}", run.anon_before, after));
    }
    sh.note(PH_DONE, 0, 0, 0);
    let (mm, mu, mp, fl) = interpose::counts();
    json!({
        "violations": run.viol,
        "digest": format!("{:016x}", run.digest),
        "probes": run.probes,
        "faults": run.faults,
        "events": run.events + mm,
        "calls": run.calls,
        "installs_ok": run.installs_ok,
        "installs_refused": run.installs_refused,
        "os_calls": {"mmap": mm, "munmap": mu, "mprotect": mp, "flush": fl},
    })
}

/// Executable anonymous memory as merged address ranges (permissions ignored: the injector leaves
/// patched pages rwx, which is not what C12 is about), minus known orphans.
fn anon_pages(orphans: &[(u64, u64)]) -> Vec<(u64, u64)> {
    let mut v: Vec<(u64, u64)> = Vec::new();
    for (s, e, _) in snap::anon_exec_maps() {
        let mut cur = s;
        while cur < e {
            if !orphans.iter().any(|(os, oe)| cur >= *os && cur < *oe) {
                match v.last_mut() {
                    Some((_, le)) if *le == cur => *le = cur + PS,
                    _ => v.push((cur, cur + PS)),
                }
            }
            cur += PS;
        }
    }
    v
}

/// Verdict for a child that died by signal, from the progress note.
pub fn signal_violation(sig: i32, sh: &Shared) -> Value {
    let (ph, lt, op, extra) = (sh.get(0), sh.get(1), sh.get(2), sh.get(3));
    let name = signal_name(sig);
    let (phase, props): (&str, Vec<&str>) = if sig == libc::SIGABRT {
        ("abort", vec!["C05"])
    } else {
        match ph {
            PH_INSTALL => ("install", vec!["C01", "C11"]),
            PH_CALL_LIVE => ("call-while-faked", vec!["C01"]),
            PH_DROP => ("scope-exit", vec!["C02"]),
            PH_CALL_AFTER => ("call-after-scope-exit", if extra == 1 { vec!["C02", "C05"] } else { vec!["C02"] }),
            PH_OBSERVER => {
                if extra == 1 {
                    ("call-of-an-un-named-neighbour-during-an-installation", vec!["C03"])
                } else {
                    ("call-from-another-thread-during-an-installation", vec!["C01", "C02", "C03"])
                }
            }
            PH_SETUP => ("setup", vec![]),
            _ => ("call-of-unfaked-function", vec!["C03", "C02"]),
        }
    };
    json!({
        "tag": format!("died-with-signal[{name}:{phase}]"),
        "props": props,
        "detail": format!("the process was killed by {name} during {phase} (lifetime {lt}, op {op})"),
    })
}
