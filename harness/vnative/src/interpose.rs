//! Link-time interposition (DESIGN 2.1a): this executable defines the C symbols through which the
//! unmodified injectorpp crate reaches the OS.  Calls are forwarded to the raw system call; while
//! the calling thread is "armed" they are recorded in a ledger and may be made to fail.

use std::cell::{Cell, RefCell};

#[derive(Clone, Debug, PartialEq)]
pub enum NEv {
    Mmap { hint: u64, len: u64, prot: i32, flags: i32, ret: u64 },
    Munmap { addr: u64, len: u64, ret: i32 },
    Mprotect { addr: u64, len: u64, prot: i32, ret: i32 },
    /// `bytes` = copy of the flushed range taken at call time (up to 64 KiB)
    Flush { start: u64, end: u64, bytes: Vec<u8> },
}

#[derive(Default, Clone, Debug)]
pub struct Faults {
    /// every executable mmap fails with ENOMEM
    pub enomem_all: bool,
    /// the first `enomem_first` executable mmaps of the armed window fail with ENOMEM (transient)
    pub enomem_first: u64,
    /// the next mprotect fails with EACCES
    pub mprotect_fail_next: bool,
    /// every mprotect touching [lo, hi) fails with EACCES (a page that can never be made writable)
    pub mprotect_deny: Option<(u64, u64)>,
    /// every mprotect touching [lo, hi) that asks for PROT_EXEC fails with EACCES (a noexec mount,
    /// an execmod-style policy); requests without PROT_EXEC go through
    pub mprotect_deny_exec: Option<(u64, u64)>,
    /// 1 + the number of mprotect calls to let through before refusing exactly one (0 = off)
    pub mprotect_fail_after: u64,
    pub fired_enomem: u64,
    pub fired_mprotect: u64,
}

thread_local! {
    static ARMED: Cell<bool> = const { Cell::new(false) };
    static LEDGER: RefCell<Vec<NEv>> = const { RefCell::new(Vec::new()) };
    static FAULTS: RefCell<Faults> = const { RefCell::new(Faults { enomem_all: false, enomem_first: 0, mprotect_fail_next: false, mprotect_deny: None, mprotect_deny_exec: None, mprotect_fail_after: 0, fired_enomem: 0, fired_mprotect: 0 }) };
    static COUNTS: Cell<(u64, u64, u64, u64)> = const { Cell::new((0, 0, 0, 0)) };
}

thread_local! {
    /// "another thread gets scheduled here": called at every OS-call boundary while armed
    static OBSERVER: RefCell<Option<Box<dyn FnMut(&'static str)>>> = const { RefCell::new(None) };
    static OBS_COUNT: Cell<u64> = const { Cell::new(0) };
}

pub fn set_observer(o: Option<Box<dyn FnMut(&'static str)>>) {
    OBSERVER.with(|x| *x.borrow_mut() = o);
    OBS_COUNT.with(|c| c.set(0));
}

fn observe(point: &'static str) {
    // the first 48 boundaries of an API call, then every 2048th (a full scan makes 131 074)
    let n = OBS_COUNT.with(|c| {
        let v = c.get();
        c.set(v + 1);
        v
    });
    if n >= 48 && n % 2048 != 0 {
        return;
    }
    let taken = OBSERVER.with(|x| x.borrow_mut().take());
    if let Some(mut f) = taken {
        let was = ARMED.with(|a| a.replace(false));
        f(point);
        ARMED.with(|a| a.set(was));
        OBSERVER.with(|x| {
            let mut b = x.borrow_mut();
            if b.is_none() {
                *b = Some(f);
            }
        });
    }
}

pub fn arm(on: bool) {
    ARMED.with(|a| a.set(on));
}
pub fn is_armed() -> bool {
    ARMED.with(|a| a.get())
}
pub fn take_ledger() -> Vec<NEv> {
    LEDGER.with(|l| std::mem::take(&mut *l.borrow_mut()))
}
pub fn ledger_len() -> usize {
    LEDGER.with(|l| l.borrow().len())
}
pub fn ledger_since(n: usize) -> Vec<NEv> {
    LEDGER.with(|l| l.borrow()[n..].to_vec())
}
pub fn set_faults(f: Faults) {
    FAULTS.with(|x| *x.borrow_mut() = f);
}
pub fn faults() -> Faults {
    FAULTS.with(|x| x.borrow().clone())
}
/// (mmap, munmap, mprotect, flush) calls seen while armed
pub fn counts() -> (u64, u64, u64, u64) {
    COUNTS.with(|c| c.get())
}

fn record(ev: NEv) {
    // recording may allocate: never re-enter
    let was = ARMED.with(|a| a.replace(false));
    LEDGER.with(|l| l.borrow_mut().push(ev));
    ARMED.with(|a| a.set(was));
}

fn set_errno(e: i32) {
    unsafe { *libc::__errno_location() = e };
}

#[no_mangle]
pub unsafe extern "C" fn mmap(addr: *mut libc::c_void, len: libc::size_t, prot: i32, flags: i32, fd: i32, off: libc::off_t) -> *mut libc::c_void {
    let armed = ARMED.try_with(|a| a.get()).unwrap_or(false);
    if armed && prot & libc::PROT_EXEC != 0 {
        let inject = FAULTS.with(|f| {
            let mut f = f.borrow_mut();
            if f.enomem_all {
                f.fired_enomem += 1;
                true
            } else if f.enomem_first > 0 {
                f.enomem_first -= 1;
                f.fired_enomem += 1;
                true
            } else {
                false
            }
        });
        if inject {
            COUNTS.with(|c| {
                let mut v = c.get();
                v.0 += 1;
                c.set(v)
            });
            // failed attempts are counted, not stored (a full scan makes 65 537 of them)
            set_errno(libc::ENOMEM);
            return libc::MAP_FAILED;
        }
    }
    let r = libc::syscall(libc::SYS_mmap, addr, len, prot, flags, fd, off) as *mut libc::c_void;
    if armed {
        COUNTS.with(|c| {
            let mut v = c.get();
            v.0 += 1;
            c.set(v)
        });
        record(NEv::Mmap { hint: addr as u64, len: len as u64, prot, flags, ret: r as u64 });
        observe("mmap");
    }
    r
}

#[no_mangle]
pub unsafe extern "C" fn munmap(addr: *mut libc::c_void, len: libc::size_t) -> i32 {
    let armed = ARMED.try_with(|a| a.get()).unwrap_or(false);
    let r = libc::syscall(libc::SYS_munmap, addr, len) as i32;
    if armed {
        COUNTS.with(|c| {
            let mut v = c.get();
            v.1 += 1;
            c.set(v)
        });
        record(NEv::Munmap { addr: addr as u64, len: len as u64, ret: r });
        observe("munmap");
    }
    r
}

/// A range whose protection can never be changed, by any thread, armed or not (a read-only shared
/// file mapping behaves like this): (lo, hi), 0 = none.
static PERM_DENY_LO: std::sync::atomic::AtomicU64 = std::sync::atomic::AtomicU64::new(0);
static PERM_DENY_HI: std::sync::atomic::AtomicU64 = std::sync::atomic::AtomicU64::new(0);
pub static PERM_DENY_FIRED: std::sync::atomic::AtomicU64 = std::sync::atomic::AtomicU64::new(0);
pub fn set_permanent_deny(r: Option<(u64, u64)>) {
    let (lo, hi) = r.unwrap_or((0, 0));
    PERM_DENY_LO.store(lo, std::sync::atomic::Ordering::SeqCst);
    PERM_DENY_HI.store(hi, std::sync::atomic::Ordering::SeqCst);
}

#[no_mangle]
pub unsafe extern "C" fn mprotect(addr: *mut libc::c_void, len: libc::size_t, prot: i32) -> i32 {
    let armed = ARMED.try_with(|a| a.get()).unwrap_or(false);
    {
        let (lo, hi) = (PERM_DENY_LO.load(std::sync::atomic::Ordering::SeqCst), PERM_DENY_HI.load(std::sync::atomic::Ordering::SeqCst));
        if hi > lo && (addr as u64) < hi && (addr as u64 + len as u64) > lo {
            PERM_DENY_FIRED.fetch_add(1, std::sync::atomic::Ordering::SeqCst);
            set_errno(libc::EACCES);
            return -1;
        }
    }
    if armed {
        let inject = FAULTS.with(|f| {
            let mut f = f.borrow_mut();
            let denied = match f.mprotect_deny {
                Some((lo, hi)) => (addr as u64) < hi && (addr as u64 + len as u64) > lo,
                None => false,
            };
            let denied_exec = match f.mprotect_deny_exec {
                Some((lo, hi)) => prot & libc::PROT_EXEC != 0 && (addr as u64) < hi && (addr as u64 + len as u64) > lo,
                None => false,
            };
            let kth = if f.mprotect_fail_after > 0 {
                f.mprotect_fail_after -= 1;
                f.mprotect_fail_after == 0
            } else {
                false
            };
            if f.mprotect_fail_next || denied || denied_exec || kth {
                f.mprotect_fail_next = false;
                f.fired_mprotect += 1;
                true
            } else {
                false
            }
        });
        if inject {
            record(NEv::Mprotect { addr: addr as u64, len: len as u64, prot, ret: -1 });
            set_errno(libc::EACCES);
            return -1;
        }
    }
    let r = libc::syscall(libc::SYS_mprotect, addr, len, prot) as i32;
    if armed {
        COUNTS.with(|c| {
            let mut v = c.get();
            v.2 += 1;
            c.set(v)
        });
        record(NEv::Mprotect { addr: addr as u64, len: len as u64, prot, ret: r });
        observe("mprotect");
    }
    r
}

/// On x86-64 the instruction cache is coherent and the real `__clear_cache` is a no-op; the
/// request itself is what C17 is about.
#[no_mangle]
pub unsafe extern "C" fn __clear_cache(start: *mut u8, end: *mut u8) {
    let armed = ARMED.try_with(|a| a.get()).unwrap_or(false);
    if armed {
        COUNTS.with(|c| {
            let mut v = c.get();
            v.3 += 1;
            c.set(v)
        });
        let n = (end as usize).saturating_sub(start as usize).min(1 << 16);
        let bytes = if n > 0 && crate::snap::readable(start as u64, n) { std::slice::from_raw_parts(start, n).to_vec() } else { Vec::new() };
        record(NEv::Flush { start: start as u64, end: end as u64, bytes });
        observe("flush");
    }
}
