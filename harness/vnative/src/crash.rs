//! Engine N, family "crash" (C05): a scripted test body with one crash point per lifetime, many
//! consecutive lifetimes per process.  A "crash" is a panic: injected in user code, or raised by
//! the library (refused installation, fake rejecting its arguments, over-call, allocation
//! exhausted, mprotect refused, call-count verification at scope exit).

use crate::contain::*;
use crate::interpose::{self, Faults};
use injectorpp::interface::injector::*;
use serde::{Deserialize, Serialize};
use serde_json::{json, Value};
use simos::rng::Rng;
use std::hint::black_box;
use std::panic::{catch_unwind, AssertUnwindSafe};
use std::sync::atomic::{AtomicUsize, Ordering};

pub static N_CA: AtomicUsize = AtomicUsize::new(0);
pub static N_CD: AtomicUsize = AtomicUsize::new(0);
pub static N_CE: AtomicUsize = AtomicUsize::new(0);
static SINK: AtomicUsize = AtomicUsize::new(0);

#[inline(never)]
pub fn cr_a(x: u32) -> u32 {
    black_box(x) + 1
}
#[inline(never)]
pub fn cr_b(x: u32) -> bool {
    black_box(x) > 5
}
#[inline(never)]
pub fn cr_c() -> String {
    black_box("orig").to_string()
}
#[inline(never)]
pub fn cr_d(x: u32) {
    SINK.fetch_add(black_box(x) as usize + 1, Ordering::SeqCst);
}
#[inline(never)]
pub fn cr_e(x: u32) -> u32 {
    black_box(x) + 3
}
/// a synthetic function alone on its page (mapped by `execute`)
pub const LONELY_FN: u64 = 0x6100_0000_0040;
/// two synthetic pages: a function that ends `edge_off` bytes before the end of the first one,
/// and a second page whose protection can never be changed (the entry jump fits in the first)
pub const EDGE_BASE: u64 = 0x6100_0010_0000;
#[inline(never)]
fn cr_fake_a(x: u32) -> u32 {
    black_box(x) + 500
}
#[inline(never)]
fn cr_fake_edge() -> u32 {
    black_box(0x99)
}

fn site_a() -> (FuncPtr, CallCountVerifier) {
    injectorpp::fake!(func_type: fn(x: u32) -> u32, when: x < 100, returns: x + 9000, times: crate::crash::N_CA.load(std::sync::atomic::Ordering::SeqCst))
}
fn site_d() -> (FuncPtr, CallCountVerifier) {
    injectorpp::fake!(func_type: fn(_x: u32) -> (), times: crate::crash::N_CD.load(std::sync::atomic::Ordering::SeqCst))
}
fn site_e() -> (FuncPtr, CallCountVerifier) {
    injectorpp::fake!(func_type: fn(x: u32) -> u32, returns: x + 9100, times: crate::crash::N_CE.load(std::sync::atomic::Ordering::SeqCst))
}

#[derive(Serialize, Deserialize, Clone, Debug, PartialEq)]
pub struct Step {
    /// install_a_raw | install_a_counted | install_b_bool | install_d_counted | install_e_counted |
    /// install_c_closure | call_a | call_b | call_d | call_e |
    /// refused (with `how`) | user_panic | call_a_rejected | call_a_overcall
    pub what: String,
    /// for refused installs: sig_mismatch | null_ptr | bool_on_nonbool | enomem | mprotect | async_wrong_type
    pub how: String,
    /// refused installs only: the refusal is caught inside the body and the body goes on
    pub caught: bool,
    pub n: usize,
    pub arg: u32,
}

#[derive(Serialize, Deserialize, Clone, Debug, PartialEq)]
pub struct CrLifetime {
    pub steps: Vec<Step>,
}

#[derive(Serialize, Deserialize, Clone, Debug, PartialEq)]
pub struct CrashScenario {
    pub engine: String,
    pub family: String,
    pub profile: String,
    pub variant: String,
    pub seed: u64,
    pub index: u64,
    /// 0 = none; else the synthetic "edge" function starts this many bytes (6..=11) before a page
    /// whose protection can never be changed
    #[serde(default)]
    pub edge_off: u64,
    /// the counted `fake!` pairs of every lifetime are built one lifetime ahead (a fixture that
    /// prepares its fakes before the previous test body has finished) and only installed later
    #[serde(default)]
    pub prepare_ahead: bool,
    /// every lifetime runs inside a destructor while another panic unwinds the thread (a fixture
    /// whose `Drop` uses its own injector): scope-exit verification must then stay silent, all else holds
    #[serde(default)]
    pub in_unwind: bool,
    pub lifetimes: Vec<CrLifetime>,
    pub classes: Vec<String>,
}

fn st(what: &str) -> Step {
    Step { what: what.into(), how: String::new(), caught: false, n: 0, arg: 0 }
}

pub fn generate(profile: &str, seed: u64, index: u64) -> CrashScenario {
    let mut rng = Rng::new(simos::rng::scenario_seed(seed, &format!("N/crash/{profile}"), index));
    let n_l = if rng.chance(1, 10) { 20 + rng.below(31) as usize } else { 1 + rng.below(6) as usize };
    let mut classes = Vec::new();
    let mut lifetimes = Vec::new();
    let in_unwind = rng.chance(1, 6);
    if in_unwind {
        classes.push("whole-scenario-while-unwinding".into());
    }
    let prepare_ahead = rng.chance(1, 4);
    if prepare_ahead {
        classes.push("counted-pairs-prepared-a-lifetime-ahead".into());
    }
    // 6..=11: the function ends that many bytes before a page nobody can re-protect;
    // 5: its 5-byte entry jump ends exactly on the page boundary, and the next page is an ordinary
    //    data page of the test that may be unmapped while the fake is installed
    let edge_off = if rng.chance(1, 3) { 5 + rng.below(7) } else { 0 };
    if edge_off > 5 {
        classes.push("edge-function-before-immutable-page".into());
    } else if edge_off == 5 {
        classes.push("edge-function-ends-on-page-boundary".into());
    }
    for _ in 0..n_l {
        let mut steps: Vec<Step> = Vec::new();
        let n_steps = rng.below(7) as usize;
        let mut a_counted: Option<(usize, usize)> = None; // (N, matching calls so far)
        let mut a_raw = false;
        let mut d_counted: Option<(usize, usize)> = None;
        let mut e_counted: Option<(usize, usize)> = None;
        for _ in 0..n_steps {
            let c = rng.below(if edge_off > 0 { 15 } else { 12 });
            match c {
                12 | 13 => steps.push(st("install_edge")),
                14 if edge_off == 5 && rng.chance(1, 2) => steps.push(st("env_unmap_after_edge")),
                14 => steps.push(st("call_edge")),
                0 => {
                    steps.push(st("install_a_raw"));
                    a_raw = true;
                }
                1 | 2 if a_counted.is_none() => {
                    // (a counted expectation stays pending until scope exit even if a later
                    // installation overrides the fake; one counted site per target and lifetime)
                    let mut s = st("install_a_counted");
                    s.n = rng.below(4) as usize;
                    a_counted = Some((s.n, 0));
                    a_raw = false;
                    steps.push(s);
                }
                3 => {
                    let mut s = st("install_b_bool");
                    s.arg = rng.below(2) as u32;
                    steps.push(s);
                }
                4 if d_counted.is_none() => {
                    let mut s = st("install_d_counted");
                    s.n = rng.below(3) as usize;
                    d_counted = Some((s.n, 0));
                    steps.push(s);
                }
                5 if e_counted.is_none() => {
                    let mut s = st("install_e_counted");
                    s.n = rng.below(3) as usize;
                    e_counted = Some((s.n, 0));
                    steps.push(s);
                }
                6 => steps.push(st("install_c_closure")),
                7 | 8 => {
                    // a call that does not panic under the model
                    let mut s = st("call_a");
                    s.arg = rng.below(100) as u32;
                    match &mut a_counted {
                        _ if a_raw => steps.push(s),
                        Some((n, m)) if *m < *n => {
                            *m += 1;
                            steps.push(s);
                        }
                        Some(_) => {}
                        None => steps.push(s),
                    }
                }
                9 => match &mut d_counted {
                    Some((n, m)) if *m < *n => {
                        *m += 1;
                        steps.push(st("call_d"));
                    }
                    Some(_) => {}
                    None => steps.push(st("call_d")),
                },
                10 => match &mut e_counted {
                    Some((n, m)) if *m < *n => {
                        *m += 1;
                        steps.push(st("call_e"));
                    }
                    Some(_) => {}
                    None => steps.push(st("call_e")),
                },
                _ => {
                    // a refusal caught inside the body: the injector stays alive afterwards
                    let mut s = st("refused");
                    s.how = (*rng.pick(&["sig_mismatch", "null_ptr", "bool_on_nonbool", "mprotect", "enomem", "async_wrong_type"])).into();
                    s.caught = true;
                    steps.push(s);
                }
            }
        }
        // the crash point
        let crash = rng.below(10);
        let kind = match crash {
            0 => "none",
            1 | 2 => {
                let pos = rng.below(steps.len() as u64 + 1) as usize;
                steps.insert(pos, st("user_panic"));
                steps.truncate(pos + 1);
                "user-panic"
            }
            3 | 4 => {
                let mut s = st("refused");
                s.how = (*rng.pick(&["sig_mismatch", "null_ptr", "bool_on_nonbool", "mprotect", "mprotect_persistent", "mprotect_noexec", "enomem", "async_wrong_type"])).into();
                let pos = rng.below(steps.len() as u64 + 1) as usize;
                steps.insert(pos, s);
                steps.truncate(pos + 1);
                "refused-install"
            }
            5 if a_counted.is_some() && !a_raw => {
                let mut s = st("call_a_rejected");
                s.arg = 100 + rng.below(100) as u32;
                steps.push(s);
                "fake-rejects-arguments"
            }
            6 if a_counted.is_some() && !a_raw => {
                // exhaust the budget, then one more
                let (n, m) = a_counted.unwrap();
                for _ in m..n {
                    let mut s = st("call_a");
                    s.arg = rng.below(100) as u32;
                    steps.push(s);
                }
                let mut s = st("call_a_overcall");
                s.arg = rng.below(100) as u32;
                steps.push(s);
                "over-call"
            }
            _ => "none",
        };
        // pending expectations at scope exit
        let pending = [a_counted, d_counted, e_counted].iter().filter(|x| matches!(x, Some((n, m)) if n != m)).count();
        classes.push(format!("crash-{kind}-pending{pending}-steps{}", steps.len().min(8)));
        lifetimes.push(CrLifetime { steps });
    }
    classes.push(format!("lifetimes-{}", if n_l > 6 { "many" } else { "few" }));
    classes.sort();
    classes.dedup();
    CrashScenario { engine: "N".into(), family: "crash".into(), profile: profile.into(), variant: "x86_64-linux-native".into(), seed, index, edge_off, prepare_ahead, in_unwind, lifetimes, classes }
}

fn panic_msg(p: &Box<dyn std::any::Any + Send>) -> String {
    if let Some(s) = p.downcast_ref::<String>() {
        s.clone()
    } else if let Some(s) = p.downcast_ref::<&str>() {
        s.to_string()
    } else {
        "<non-string payload>".into()
    }
}

struct UserPanic;

async fn async_u32(x: u32) -> u32 {
    x + 1
}

fn slot(addr: usize) -> Vec<u8> {
    // the edge function may end with its page (and the page behind it may be gone)
    let n = if (EDGE_BASE as usize..EDGE_BASE as usize + 4096).contains(&addr) { (EDGE_BASE as usize + 4096 - addr).min(16) } else { 16 };
    unsafe { std::slice::from_raw_parts(addr as *const u8, n).to_vec() }
}

fn targets(edge_off: u64) -> Vec<(&'static str, usize)> {
    let mut v = targets0();
    if edge_off > 0 {
        v.push(("edge synthetic function", (EDGE_BASE + 4096 - edge_off) as usize));
    }
    v
}
fn targets0() -> Vec<(&'static str, usize)> {
    vec![
        ("cr_a", cr_a as fn(u32) -> u32 as usize),
        ("cr_b", cr_b as fn(u32) -> bool as usize),
        ("cr_c", cr_c as fn() -> String as usize),
        ("cr_d", cr_d as fn(u32) as usize),
        ("cr_e", cr_e as fn(u32) -> u32 as usize),
        ("lonely synthetic function", LONELY_FN as usize),
    ]
}

/// The refused installation `how` against the live injector; always panics if the library
/// behaves; returns the name of the function that must stay untouched.
fn do_refused(inj: &mut InjectorPP, how: &str) {
    match how {
        "sig_mismatch" => inj.when_called(injectorpp::func!(fn (cr_e)(u32) -> u32)).will_execute_raw(injectorpp::closure!(|| 1u32, fn() -> u32)),
        "null_ptr" => inj.when_called(injectorpp::func!(fn (cr_e)(u32) -> u32)).will_execute_raw(unsafe { FuncPtr::new(std::ptr::null(), "fn(u32) -> u32") }),
        "bool_on_nonbool" => inj.when_called(injectorpp::func!(fn (cr_e)(u32) -> u32)).will_return_boolean(true),
        "async_wrong_type" => inj
            .when_called_async(injectorpp::async_func!(async_u32(0), u32))
            .will_return_async(injectorpp::async_return!("x".to_string(), String)),
        "enomem" => {
            interpose::set_faults(Faults { enomem_all: true, ..Default::default() });
            interpose::arm(true);
            inj.when_called(injectorpp::func!(fn (cr_e)(u32) -> u32)).will_execute_raw(injectorpp::func!(fn (cr_fake_a)(u32) -> u32));
        }
        "mprotect" => {
            interpose::set_faults(Faults { mprotect_fail_next: true, ..Default::default() });
            interpose::arm(true);
            inj.when_called(injectorpp::func!(fn (cr_e)(u32) -> u32)).will_execute_raw(injectorpp::func!(fn (cr_fake_a)(u32) -> u32));
        }
        "mprotect_persistent" => {
            // a function on a page of its own that can never be made writable (the denial stays
            // for the whole unwind); no other function lives on that page, so no legitimate restore
            // is affected
            let a = LONELY_FN;
            interpose::set_faults(Faults { mprotect_deny: Some((a & !4095, (a & !4095) + 4096)), ..Default::default() });
            interpose::arm(true);
            inj.when_called(unsafe { FuncPtr::new(a as *const (), "fn(u32) -> u32") }).will_execute_raw(injectorpp::func!(fn (cr_fake_a)(u32) -> u32));
        }
        "mprotect_noexec" => {
            // the same lonely function, on a page that may become writable but never (again)
            // executable: any request that includes PROT_EXEC is refused for the whole unwind
            let a = LONELY_FN;
            interpose::set_faults(Faults { mprotect_deny_exec: Some((a & !4095, (a & !4095) + 4096)), ..Default::default() });
            interpose::arm(true);
            inj.when_called(unsafe { FuncPtr::new(a as *const (), "fn(u32) -> u32") }).will_execute_raw(injectorpp::func!(fn (cr_fake_a)(u32) -> u32));
        }
        h => panic!("harness: unknown refusal {h}"),
    }
}

pub fn execute(sc: &CrashScenario, sh: &Shared) -> Value {
    let viol: std::cell::RefCell<Vec<Value>> = std::cell::RefCell::new(Vec::new());
    let v = |tag: &str, props: &[&str], detail: String| {
        let mut viol = viol.borrow_mut();
        if viol.len() < 16 && !viol.iter().any(|x| x["tag"] == tag) {
            viol.push(json!({"tag": tag, "props": props, "detail": detail}));
        }
    };
    if !crate::arena::map_rw(LONELY_FN & !4095, 4096) {
        return json!({"skipped": "arena unavailable"});
    }
    crate::arena::write_const_fn(LONELY_FN, 0x77);
    crate::arena::seal_rx(LONELY_FN & !4095, 4096);
    let edge_fn = EDGE_BASE + 4096 - sc.edge_off;
    if sc.edge_off > 0 {
        if !(5..=11).contains(&sc.edge_off) || !crate::arena::map_rw(EDGE_BASE, 8192) {
            return json!({"skipped": "edge arena unavailable"});
        }
        if sc.edge_off == 5 {
            // `mov al, 0x66; ret; int3; int3` -- five bytes, the last one is the last of the page;
            // the next page stays an ordinary read-write data page
            let code = [0xB0u8, 0x66, 0xC3, 0xCC, 0xCC];
            unsafe { std::ptr::copy_nonoverlapping(code.as_ptr(), edge_fn as *mut u8, 5) };
            crate::arena::seal_rx(EDGE_BASE, 4096);
        } else {
            crate::arena::write_const_fn(edge_fn, 0x66);
            crate::arena::seal_rx(EDGE_BASE, 8192);
            interpose::set_permanent_deny(Some((EDGE_BASE + 4096, EDGE_BASE + 8192)));
        }
    }
    let edge_mask: u32 = if sc.edge_off == 5 { 0xFF } else { u32::MAX };
    let edge_neighbour_gone = std::cell::Cell::new(false);
    let tg = targets(sc.edge_off);
    let pristine: Vec<Vec<u8>> = tg.iter().map(|(_, a)| slot(*a)).collect();
    let mut digest = 0xC5u64;
    let mut faults: std::collections::BTreeMap<String, u64> = Default::default();
    let mut probes: std::collections::BTreeMap<String, u64> = Default::default();
    let mut steps_done = 0u64;
    let mut lock_was_poisoned = false;
    let mut prepared: [Option<(FuncPtr, CallCountVerifier)>; 3] = [None, None, None];
    struct InDrop<F: FnMut()>(Option<F>);
    impl<F: FnMut()> Drop for InDrop<F> {
        fn drop(&mut self) {
            if let Some(mut f) = self.0.take() {
                f()
            }
        }
    }
    struct Outer;
    {
    let mut all = || {
    for (li, lt) in sc.lifetimes.iter().enumerate() {
        unsafe { libc::alarm(60) };
        sh.note(PH_OTHER, li as u64, 0, 0);
        if lock_was_poisoned {
            *probes.entry("lock_acquired_after_panic_release".into()).or_insert(0) += 1;
        }
        // ---- model state for this lifetime
        let mut a_fake: Option<(&str, usize, usize)> = None; // active fake of cr_a: (kind, N, m)
        let mut a_exp: Option<(usize, usize)> = None; // counted expectation on cr_a, pending until exit
        let mut b_forced: Option<bool> = None;
        let mut c_faked = false;
        let mut edge_faked = false;
        let mut d_cnt: Option<(usize, usize)> = None;
        let mut e_cnt: Option<(usize, usize)> = None;
        let mut expect_panic: Option<String> = None; // description of the crash we expect
        // pairs for the NEXT lifetime, evaluated now (their `times` is read at evaluation)
        let mut prep_next: [Option<(FuncPtr, CallCountVerifier)>; 3] = [None, None, None];
        if sc.prepare_ahead {
            if let Some(nl) = sc.lifetimes.get(li + 1) {
                for s in &nl.steps {
                    match s.what.as_str() {
                        "install_a_counted" if prep_next[0].is_none() => {
                            N_CA.store(s.n, Ordering::SeqCst);
                            prep_next[0] = Some(site_a());
                        }
                        "install_d_counted" if prep_next[1].is_none() => {
                            N_CD.store(s.n, Ordering::SeqCst);
                            prep_next[1] = Some(site_d());
                        }
                        "install_e_counted" if prep_next[2].is_none() => {
                            N_CE.store(s.n, Ordering::SeqCst);
                            prep_next[2] = Some(site_e());
                        }
                        _ => {}
                    }
                }
                if prep_next.iter().any(|p| p.is_some()) {
                    *probes.entry("counted_pair_evaluated_a_lifetime_ahead".into()).or_insert(0) += 1;
                }
            }
        }
        let mut prep_now = std::mem::replace(&mut prepared, prep_next);
        let panics_before = crate::count::PANICS.load(Ordering::SeqCst);
        let body = catch_unwind(AssertUnwindSafe(|| {
            let mut inj = InjectorPP::new();
            for (si, s) in lt.steps.iter().enumerate() {
                sh.note(PH_OTHER, li as u64, si as u64, 1);
                steps_done += 1;
                match s.what.as_str() {
                    "install_a_raw" => {
                        inj.when_called(injectorpp::func!(fn (cr_a)(u32) -> u32)).will_execute_raw(injectorpp::func!(fn (cr_fake_a)(u32) -> u32));
                        a_fake = Some(("raw", 0, 0));
                    }
                    "install_a_counted" => {
                        N_CA.store(s.n, Ordering::SeqCst);
                        inj.when_called(injectorpp::func!(fn (cr_a)(u32) -> u32)).will_execute(prep_now[0].take().unwrap_or_else(site_a));
                        a_fake = Some(("counted", s.n, 0));
                        a_exp = Some((s.n, 0));
                    }
                    "install_b_bool" => {
                        inj.when_called(injectorpp::func!(fn (cr_b)(u32) -> bool)).will_return_boolean(s.arg == 1);
                        b_forced = Some(s.arg == 1);
                    }
                    "install_d_counted" => {
                        N_CD.store(s.n, Ordering::SeqCst);
                        inj.when_called(injectorpp::func!(fn (cr_d)(u32))).will_execute(prep_now[1].take().unwrap_or_else(site_d));
                        d_cnt = Some((s.n, 0));
                    }
                    "install_e_counted" => {
                        N_CE.store(s.n, Ordering::SeqCst);
                        inj.when_called(injectorpp::func!(fn (cr_e)(u32) -> u32)).will_execute(prep_now[2].take().unwrap_or_else(site_e));
                        e_cnt = Some((s.n, 0));
                    }
                    "install_edge" if sc.edge_off > 0 => {
                        inj.when_called(unsafe { FuncPtr::new(edge_fn as *const (), "fn() -> u32") }).will_execute_raw(injectorpp::func!(fn (cr_fake_edge)() -> u32));
                        edge_faked = true;
                    }
                    "env_unmap_after_edge" if sc.edge_off == 5 => {
                        // the test frees its own buffer next to the code page; nothing of the
                        // injector's business (raw system call, not seen by the interposer)
                        if !edge_neighbour_gone.get() {
                            unsafe { libc::syscall(libc::SYS_munmap, (EDGE_BASE + 4096) as usize, 4096usize) };
                            edge_neighbour_gone.set(true);
                        }
                    }
                    "call_edge" if sc.edge_off > 0 => {
                        let got = crate::arena::call_u32(edge_fn) & if edge_faked { u32::MAX } else { edge_mask };
                        let want = if edge_faked { 0x99 } else { 0x66 };
                        if got != want {
                            v("call-result-differs-from-model", &["C05", "C01"], format!("lifetime {li} step {si}: edge function returned {got:#x}, model {want:#x}"));
                        }
                    }
                    "install_c_closure" => {
                        inj.when_called(injectorpp::func!(fn (cr_c)() -> String)).will_execute_raw(injectorpp::closure!(|| "fake".to_string(), fn() -> String));
                        c_faked = true;
                    }
                    "call_a" => {
                        let got = black_box(cr_a as fn(u32) -> u32)(s.arg);
                        let want = match &mut a_fake {
                            None => s.arg + 1,
                            Some(("raw", _, _)) => s.arg + 500,
                            Some((_, _, m)) => {
                                *m += 1;
                                if let Some((_, em)) = &mut a_exp {
                                    *em += 1;
                                }
                                s.arg + 9000
                            }
                        };
                        if got != want {
                            v("call-result-differs-from-model", &["C05", "C02"], format!("lifetime {li} step {si}: cr_a({}) = {got}, model {want}", s.arg));
                        }
                        if b_forced.is_some() && black_box(cr_b as fn(u32) -> bool)(s.arg) != b_forced.unwrap() {
                            v("call-result-differs-from-model", &["C05", "C10"], format!("lifetime {li} step {si}: forced boolean not returned"));
                        }
                        if c_faked && black_box(cr_c as fn() -> String)() != "fake" {
                            v("call-result-differs-from-model", &["C05"], format!("lifetime {li} step {si}: cr_c not faked"));
                        }
                    }
                    "call_d" => {
                        let before = SINK.load(Ordering::SeqCst);
                        black_box(cr_d as fn(u32))(7);
                        let ran = SINK.load(Ordering::SeqCst) != before;
                        match &mut d_cnt {
                            None if !ran => v("call-result-differs-from-model", &["C05"], format!("lifetime {li} step {si}: original cr_d did not run")),
                            Some((_, m)) => {
                                *m += 1;
                                if ran {
                                    v("call-result-differs-from-model", &["C05"], format!("lifetime {li} step {si}: original cr_d ran while faked"));
                                }
                            }
                            _ => {}
                        }
                    }
                    "call_e" => {
                        let got = black_box(cr_e as fn(u32) -> u32)(4);
                        let want = match &mut e_cnt {
                            None => 7,
                            Some((_, m)) => {
                                *m += 1;
                                9104
                            }
                        };
                        if got != want {
                            v("call-result-differs-from-model", &["C05"], format!("lifetime {li} step {si}: cr_e(4) = {got}, model {want}"));
                        }
                    }
                    "call_a_rejected" => {
                        expect_panic = Some("unexpected arguments".into());
                        *faults.entry("fake_rejects_arguments".into()).or_insert(0) += 1;
                        sh.note(PH_CALL_LIVE, li as u64, si as u64, 1);
                        black_box(cr_a as fn(u32) -> u32)(s.arg);
                    }
                    "call_a_overcall" => {
                        expect_panic = Some("more times than expected".into());
                        *faults.entry("over_call".into()).or_insert(0) += 1;
                        if let Some((_, em)) = &mut a_exp {
                            *em += 1;
                        }
                        sh.note(PH_CALL_LIVE, li as u64, si as u64, 1);
                        black_box(cr_a as fn(u32) -> u32)(s.arg);
                    }
                    "user_panic" => {
                        expect_panic = Some("<user>".into());
                        *faults.entry("user_panic_injected".into()).or_insert(0) += 1;
                        std::panic::panic_any(UserPanic);
                    }
                    "refused" => {
                        *faults.entry(format!("refused_install_{}", s.how)).or_insert(0) += 1;
                        sh.note(PH_INSTALL, li as u64, si as u64, 1);
                        // cr_e is the refused target unless it is already faked (then bytes are
                        // the live patch and must stay exactly that)
                        let before = slot(cr_e as fn(u32) -> u32 as usize);
                        let os_kind = matches!(s.how.as_str(), "enomem" | "mprotect" | "mprotect_persistent" | "mprotect_noexec");
                        let mut accepted_despite_os_fault = false;
                        if s.caught {
                            let r = catch_unwind(AssertUnwindSafe(|| do_refused(&mut inj, &s.how)));
                            interpose::arm(false);
                            let f = interpose::faults();
                            interpose::set_faults(Faults::default());
                            match r {
                                Ok(()) if os_kind => {
                                    accepted_despite_os_fault = true;
                                }
                                Ok(()) => v("refusable-install-accepted", &["C05", "C09"], format!("lifetime {li} step {si}: installation that must be refused ({}) succeeded", s.how)),
                                Err(p) => {
                                    let msg = panic_msg(&p);
                                    let _ = msg;
                                    let after = slot(cr_e as fn(u32) -> u32 as usize);
                                    if after != before {
                                        v("refused-target-was-modified", &["C05"], format!("lifetime {li} step {si}: refusal ({}) left cr_e's entry changed: {:02x?} -> {:02x?}", s.how, before, after));
                                    }
                                    let _ = f;
                                }
                            }
                        } else {
                            expect_panic = Some(format!("refused:{}", s.how));
                            do_refused(&mut inj, &s.how);
                            interpose::arm(false);
                            interpose::set_faults(Faults::default());
                            if os_kind {
                                accepted_despite_os_fault = true;
                                expect_panic = None;
                            } else {
                                v("refusable-install-accepted", &["C05", "C09"], format!("lifetime {li} step {si}: installation that must be refused ({}) succeeded", s.how));
                            }
                        }
                        if accepted_despite_os_fault {
                            // The installation did not depend on the refused OS call (e.g. no
                            // trampoline was needed): legitimate, and judged by behaviour -- the
                            // function must now answer with the fake.  The lifetime ends here.
                            *probes.entry("os_fault_did_not_prevent_the_installation".into()).or_insert(0) += 1;
                            let redirected = if s.how == "mprotect_persistent" || s.how == "mprotect_noexec" { slot(LONELY_FN as usize) != pristine[5] } else { black_box(cr_e as fn(u32) -> u32)(1) == 501 };
                            if !redirected {
                                v("accepted-install-does-not-redirect", &["C05", "C01"], format!("lifetime {li} step {si}: the installation under an OS fault ({}) reported success but the function is not redirected", s.how));
                            }
                            break;
                        }
                    }
                    w => panic!("harness: unknown step {w}"),
                }
            }
            sh.note(PH_DROP, li as u64, 0, 0);
            // scope exit: `inj` dropped here; pending expectations panic
        }));
        interpose::arm(false);
        interpose::set_faults(Faults::default());
        // a prepared pair that was never installed is simply let go (its verifier must not judge)
        for p in prep_now.iter_mut() {
            if let Some(x) = p.take() {
                std::mem::forget(x);
            }
        }
        let panics_here = crate::count::PANICS.load(Ordering::SeqCst) - panics_before;
        // caught refusals inside the body each raised one panic too
        let caught_refusals = lt.steps.iter().filter(|s| s.what == "refused" && s.caught).count();
        let pending: Vec<String> = [("cr_a", a_exp), ("cr_d", d_cnt), ("cr_e", e_cnt)]
            .iter()
            .filter_map(|(n, c)| c.filter(|(n0, m)| n0 != m).map(|(n0, m)| format!("{n}: expected {n0}, called {m}")))
            .collect();
        let what = format!("lifetime {li} ({} steps, crash {:?}, pending expectations {:?})", lt.steps.len(), expect_panic, pending);
        match (&body, &expect_panic) {
            (Ok(()), None) => {
                digest = digest.wrapping_mul(31).wrapping_add(1);
                if !pending.is_empty() && !sc.in_unwind {
                    v("unsatisfied-expectation-not-reported", &["C06"], format!("{what}: scope exit did not panic"));
                }
            }
            (Ok(()), Some(_)) => {
                v("expected-panic-did-not-happen", &["C05"], format!("{what}: body completed normally"));
            }
            (Err(p), None) => {
                digest = digest.wrapping_mul(31).wrapping_add(2);
                let msg = panic_msg(p);
                if sc.in_unwind && !pending.is_empty() && msg.contains("expected to be called") {
                    v("more-than-one-panic-raised", &["C05", "C06"], format!("{what}: the thread was already unwinding (the lifetime runs inside a destructor), yet scope exit raised {msg:?}"));
                } else if pending.is_empty() {
                    v("unexpected-panic", &["C05"], format!("{what}: panicked with {msg:?}"));
                } else {
                    *faults.entry("verification_panic_at_scope_exit".into()).or_insert(0) += 1;
                    if !msg.contains("expected to be called") {
                        v("unexpected-panic", &["C05"], format!("{what}: panicked with {msg:?}"));
                    }
                    if pending.len() > 1 {
                        *probes.entry("several_unsatisfied_expectations_at_exit".into()).or_insert(0) += 1;
                    }
                }
            }
            (Err(p), Some(exp)) => {
                digest = digest.wrapping_mul(31).wrapping_add(3);
                let msg = if p.is::<UserPanic>() { "<user>".to_string() } else { panic_msg(p) };
                let ok = match exp.as_str() {
                    "<user>" => msg == "<user>",
                    e if e.starts_with("refused:") => msg.contains("Signature mismatch") || msg.contains("Pointer must not be null") || msg.contains("Failed to allocate") || msg.contains("mprotect failed"),
                    e => msg.contains(e),
                };
                if !ok {
                    v("wrong-panic-propagated", &["C05"], format!("{what}: propagated panic is {msg:?}"));
                }
                if !pending.is_empty() {
                    *probes.entry("verifier_skipped_while_panicking".into()).or_insert(0) += 1;
                }
            }
        }
        let allowed = caught_refusals as usize + if body.is_err() { 1 } else { 0 };
        if panics_here > allowed {
            v("more-than-one-panic-raised", &["C05"], format!("{what}: {panics_here} panics were raised where at most {allowed} can be explained"));
        }
        lock_was_poisoned = body.is_err();
        // ---- after the unwind: everything is original
        sh.note(PH_CALL_AFTER, li as u64, 0, 1);
        for (i, (name, addr)) in tg.iter().enumerate() {
            let now = slot(*addr);
            if now != pristine[i] {
                v("not-restored-after-unwinding", &["C05", "C02"], format!("{what}: {name} entry bytes {:02x?}, originally {:02x?}", now, pristine[i]));
            }
        }
        if cr_a(1) != 2 || cr_b(9) != true || cr_b(1) != false || cr_c() != "orig" || cr_e(1) != 4 || crate::arena::call_u32(LONELY_FN) != 0x77 || (sc.edge_off > 0 && crate::arena::call_u32(edge_fn) & edge_mask != 0x66) {
            v("behaviour-not-original-after-unwinding", &["C05", "C02"], format!("{what}: an original function misbehaves"));
        }
        // ---- a fresh thread gets the guard and can use a new injector normally
        sh.note(PH_OTHER, li as u64, 0, 2);
        let h = std::thread::spawn(|| {
            let mut inj = InjectorPP::new();
            inj.when_called(injectorpp::func!(fn (cr_a)(u32) -> u32)).will_execute_raw(injectorpp::func!(fn (cr_fake_a)(u32) -> u32));
            let r = black_box(cr_a as fn(u32) -> u32)(1);
            drop(inj);
            (r, cr_a(1))
        });
        match h.join() {
            Ok((501, 2)) => {}
            Ok(x) => v("fresh-injector-misbehaves-after-panic", &["C05"], format!("{what}: a new injector on a fresh thread observed {:?} instead of (501, 2)", x)),
            Err(p) => v("fresh-injector-panicked-after-panic", &["C05"], format!("{what}: a new injector on a fresh thread panicked: {}", panic_msg(&p))),
        }
        if !viol.borrow().is_empty() {
            break;
        }
    }
    };
    if sc.in_unwind {
        let r = catch_unwind(AssertUnwindSafe(|| {
            let _g = InDrop(Some(&mut all));
            std::panic::panic_any(Outer);
        }));
        if let Err(p) = r {
            if !p.is::<Outer>() {
                v("more-than-one-panic-raised", &["C05"], format!("a panic escaped the fixture's destructor: {}", panic_msg(&p)));
            }
        }
    } else {
        all();
    }
    }
    for p in prepared.iter_mut() {
        if let Some(x) = p.take() {
            std::mem::forget(x);
        }
    }
    unsafe { libc::alarm(0) };
    sh.note(PH_DONE, 0, 0, 0);
    interpose::set_permanent_deny(None);
    let fired = interpose::PERM_DENY_FIRED.load(Ordering::SeqCst);
    if fired > 0 {
        faults.insert("mprotect_on_immutable_page_refused".into(), fired);
    }
    if sc.edge_off > 5 {
        *probes.entry("function_ends_before_immutable_page".into()).or_insert(0) += 1;
    }
    if edge_neighbour_gone.get() {
        faults.insert("env_page_after_the_function_unmapped_while_faked".into(), 1);
    }
    json!({
        "violations": viol.into_inner(),
        "digest": format!("{:016x}", digest),
        "probes": probes,
        "faults": faults,
        "events": steps_done,
        "calls": steps_done,
        "installs_ok": sc.lifetimes.len(),
        "installs_refused": 0,
    })
}

pub fn signal_violation(sig: i32, sh: &Shared) -> Value {
    let name = signal_name(sig);
    let (lt, st, where_) = (sh.get(1), sh.get(2), sh.get(3));
    let detail = if sig == libc::SIGALRM {
        format!("hang (watchdog) in lifetime {lt}, step {st}, stage {where_}: the guard was not released or a waiter was never woken")
    } else if sig == libc::SIGABRT {
        format!("process abort (double panic) in lifetime {lt}, step {st}, stage {where_}")
    } else {
        format!("killed by {name} in lifetime {lt}, step {st}, stage {where_}")
    };
    json!({"tag": format!("died-with-signal[{name}]"), "props": ["C05"], "detail": detail})
}
