//! Engine N, family "count": call-count expectations of `fake!` (C06 sequential part, C07).
//!
//! One `fake!(…, times: N)` expression per site, evaluated again in every lifetime (exactly what a
//! shared set-up helper or a loop body does).  N is read from a static so that one site serves
//! every N; the harness never touches injectorpp internals except, for the C06 profile only, the
//! *public* `CallCountVerifier::WithCount { counter, .. }` field, which it zeroes before installing
//! so that C06 is judged independently of C07.

use crate::contain::*;
use injectorpp::interface::injector::*;
use serde::{Deserialize, Serialize};
use serde_json::{json, Value};
use simos::rng::Rng;
use std::hint::black_box;
use std::panic::{catch_unwind, AssertUnwindSafe};
use std::sync::atomic::{AtomicUsize, Ordering};

pub static N_A: AtomicUsize = AtomicUsize::new(0);
pub static N_B: AtomicUsize = AtomicUsize::new(0);
pub static N_C: AtomicUsize = AtomicUsize::new(0);
pub static N_D: AtomicUsize = AtomicUsize::new(0);
pub static N_E: AtomicUsize = AtomicUsize::new(0);
pub static UNIT_SINK: AtomicUsize = AtomicUsize::new(0);
pub static PANICS: AtomicUsize = AtomicUsize::new(0);

#[inline(never)]
pub fn ct_add(x: u32) -> u32 {
    black_box(x) + 1
}
#[inline(never)]
pub fn ct_add2(x: u32) -> u32 {
    black_box(x) + 3
}
#[inline(never)]
pub fn ct_flag(x: u32) -> bool {
    black_box(x) > 5
}
#[inline(never)]
fn ct_raw_fake(x: u32) -> u32 {
    black_box(x) + 600
}
#[inline(never)]
pub fn ct_other(x: u32) -> u32 {
    black_box(x) + 11
}
#[inline(never)]
pub fn ct_unit(x: u32) {
    UNIT_SINK.fetch_add(black_box(x) as usize, Ordering::SeqCst);
}
#[inline(never)]
pub fn ct_two(x: u32, y: &mut u32) -> u32 {
    *y = black_box(x);
    black_box(x) * 2
}

// one macro expression per site ---------------------------------------------------------------
fn site_a() -> (FuncPtr, CallCountVerifier) {
    injectorpp::fake!(
        func_type: fn(x: u32) -> u32,
        when: x < 100,
        returns: x + 7000,
        times: crate::count::N_A.load(std::sync::atomic::Ordering::SeqCst)
    )
}
fn site_b() -> (FuncPtr, CallCountVerifier) {
    injectorpp::fake!(
        func_type: fn(x: u32) -> u32,
        returns: x + 7100,
        times: crate::count::N_B.load(std::sync::atomic::Ordering::SeqCst)
    )
}
fn site_c() -> (FuncPtr, CallCountVerifier) {
    injectorpp::fake!(
        func_type: fn(_x: u32) -> (),
        times: crate::count::N_C.load(std::sync::atomic::Ordering::SeqCst)
    )
}
fn site_d() -> (FuncPtr, CallCountVerifier) {
    injectorpp::fake!(
        func_type: fn(x: u32, y: &mut u32) -> u32,
        when: x < 100,
        assign: { *y = 77; },
        returns: x + 7200,
        times: crate::count::N_D.load(std::sync::atomic::Ordering::SeqCst)
    )
}

/// the user's `returns` expression itself panics for one argument value: the call was admitted
/// (and stays counted), the panic is the user's
fn site_e() -> (FuncPtr, CallCountVerifier) {
    injectorpp::fake!(
        func_type: fn(x: u32) -> u32,
        returns: {
            if x == 55 {
                panic!("boom in returns");
            }
            x + 7300
        },
        times: crate::count::N_E.load(std::sync::atomic::Ordering::SeqCst)
    )
}


// ---- many distinct counted call sites, all installed through ONE injector ------------------------
/// one function per site (bodies differ, so identical-code folding cannot merge them)
#[inline(never)]
fn mass_victim<const K: u32>(x: u32) -> u32 {
    black_box(x).wrapping_mul(3).wrapping_add(K)
}
macro_rules! mass_sites {
    ($($k:literal)*) => {
        pub const MASS_N: usize = [$($k),*].len();
        fn mass_target(i: usize) -> FuncPtr {
            match i {
                $($k => injectorpp::func!(mass_victim::<$k>, fn(u32) -> u32),)*
                _ => unreachable!(),
            }
        }
        /// each arm is its own `fake!` expression, hence its own static counter
        fn mass_site(i: usize) -> (FuncPtr, CallCountVerifier) {
            match i {
                $($k => injectorpp::fake!(func_type: fn(x: u32) -> u32, returns: x + 5000 + $k, times: 1),)*
                _ => unreachable!(),
            }
        }
        fn mass_call(i: usize, x: u32) -> u32 {
            match i {
                $($k => black_box(mass_victim::<$k> as fn(u32) -> u32)(x),)*
                _ => 0,
            }
        }
    };
}
mass_sites!(0 1 2 3 4 5 6 7 8 9 10 11 12 13 14 15 16 17 18 19 20 21 22 23 24 25 26 27 28 29 30 31 32 33 34 35 36 37 38 39 40 41 42 43 44 45 46 47 48 49 50 51 52 53 54 55 56 57 58 59 60 61 62 63 64 65 66 67 68 69 70 71 72 73 74 75 76 77 78 79 80 81 82 83 84 85 86 87 88 89 90 91 92 93 94 95 96 97 98 99 100 101 102 103 104 105 106 107 108 109 110 111 112 113 114 115 116 117 118 119 120 121 122 123 124 125 126 127 128 129 130 131 132 133 134 135 136 137 138 139 140 141 142 143 144 145 146 147 148 149 150 151 152 153 154 155 156 157 158 159);

/// Lifetimes that each install EVERY site through one injector and call every function exactly
/// once: no call may be refused, every answer is the fake's, scope exit is quiet; afterwards the
/// originals are back.  (Anything kept per counted installation in a bounded structure overflows.)
fn execute_mass(sc: &CountScenario, sh: &Shared) -> Value {
    let mut viol: Vec<Value> = Vec::new();
    let mut digest = 0x3A55u64;
    let mut calls = 0u64;
    let mut rng = Rng::new(sc.seed ^ sc.index.wrapping_mul(0x9E37_79B9));
    'life: for li in 0..sc.mass_lifetimes {
        sh.note(PH_OTHER, li as u64, 0, 0);
        let mut order: Vec<usize> = (0..MASS_N).collect();
        for i in (1..order.len()).rev() {
            let j = rng.below(i as u64 + 1) as usize;
            order.swap(i, j);
        }
        let body = catch_unwind(AssertUnwindSafe(|| {
            let mut inj = InjectorPP::new();
            for i in &order {
                inj.when_called(mass_target(*i)).will_execute(mass_site(*i));
            }
            let mut bad: Vec<String> = Vec::new();
            for i in order.iter().rev() {
                match catch_unwind(AssertUnwindSafe(|| mass_call(*i, 7))) {
                    Ok(v) if v == 7 + 5000 + *i as u32 => {}
                    Ok(v) => bad.push(format!("site {i}: the call returned {v}, the fake gives {}", 7 + 5000 + *i as u32)),
                    Err(p) => bad.push(format!("site {i}: the only call of this lifetime panicked: {}", panic_msg(&p))),
                }
            }
            drop(inj);
            bad
        }));
        calls += MASS_N as u64;
        digest = digest.rotate_left(3) ^ li as u64;
        match body {
            Ok(bad) => {
                if let Some(b) = bad.first() {
                    viol.push(json!({"tag": "call-within-budget-rejected", "props": ["C06", "C07"], "detail": format!("lifetime {li}, {} counted call sites installed through one injector, each called exactly once: {} problem(s), first: {b}", MASS_N, bad.len())}));
                    break 'life;
                }
            }
            Err(p) => {
                viol.push(json!({"tag": "spurious-count-mismatch-at-scope-exit", "props": ["C06", "C07"], "detail": format!("lifetime {li}, {} counted call sites each called exactly once: scope exit panicked with {:?}", MASS_N, panic_msg(&p))}));
                break 'life;
            }
        }
        for i in 0..MASS_N {
            if mass_call(i, 1) != 3 + i as u32 {
                viol.push(json!({"tag": "call-after-scope-exit-not-original", "props": ["C02"], "detail": format!("lifetime {li}: function of site {i} is not original after scope exit")}));
                break 'life;
            }
        }
    }
    sh.note(PH_DONE, 0, 0, 0);
    json!({
        "violations": viol,
        "digest": format!("{:016x}", digest),
        "probes": {"counted_call_sites_in_one_injector": MASS_N as u64 * sc.mass_lifetimes as u64},
        "faults": {},
        "events": calls,
        "calls": calls,
        "installs_ok": MASS_N as u64 * sc.mass_lifetimes as u64,
        "installs_refused": 0,
    })
}

#[derive(Serialize, Deserialize, Clone, Debug, PartialEq)]
pub struct CLifetime {
    pub n: usize,
    /// argument of each call; < 100 matches the `when` of sites a and d
    pub calls: Vec<u32>,
    pub exit_panic: bool,
    /// the same expression evaluated and installed a second time inside this lifetime (a loop body,
    /// a set-up helper called twice), followed by more calls
    #[serde(default)]
    pub second: Option<CSecond>,
    /// installations made through the same injector BEFORE the counted one: "bool" (a forced
    /// boolean on another function) | "raw" (a plain fake on another function)
    #[serde(default)]
    pub prelude: Vec<String>,
    /// a refused installation attempted (and caught) right AFTER the counted one:
    /// "" | "uncounted_mismatch" (will_execute of a fake without `times`, wrong signature) |
    /// "raw_mismatch" (will_execute_raw).  (A refused fake WITH `times` leaves its own expectation
    /// pending on the unchanged tree, which no property speaks about: not used here.)
    #[serde(default)]
    pub refused_after: String,
    /// the `fake!` expression of this lifetime was evaluated ahead of time: during the previous
    /// lifetime, after its installation and before its calls (a fixture that prepares its fakes
    /// early); it is only installed when this lifetime begins
    #[serde(default)]
    pub prepared_ahead: bool,
    /// before this lifetime begins, a complete lifetime of its own fakes the same function through
    /// a DIFFERENT counted site (another test's fixture): (site, N); it gets exactly N matching
    /// calls and goes quietly.  Sites a, b, e only (same function type).
    #[serde(default)]
    pub foreign_before: Option<(String, usize)>,
}

#[derive(Serialize, Deserialize, Clone, Debug, PartialEq)]
pub struct CSecond {
    pub n: usize,
    pub calls: Vec<u32>,
    /// install on `ct_add2` instead of the function faked first (sites a, b, e)
    pub other: bool,
}

#[derive(Serialize, Deserialize, Clone, Debug, PartialEq)]
pub struct CountScenario {
    pub engine: String,
    pub family: String,
    pub profile: String,
    pub variant: String,
    pub seed: u64,
    pub index: u64,
    /// a | b | c | d
    pub site: String,
    /// C06 profile: zero the (public) counter before every installation
    pub zero_counter: bool,
    /// every lifetime runs inside a destructor while another panic unwinds the thread (a fixture
    /// that sets up its fakes in `Drop`): verification must then stay silent, everything else holds
    #[serde(default)]
    pub in_unwind: bool,
    /// > 0: instead of `lifetimes`, this many lifetimes that each install every one of the
    /// MASS_N distinct counted call sites through one injector
    #[serde(default)]
    pub mass_lifetimes: usize,
    pub lifetimes: Vec<CLifetime>,
    pub classes: Vec<String>,
}

pub fn generate(profile: &str, seed: u64, index: u64) -> CountScenario {
    if index % 67 == 66 {
        let mut rng = Rng::new(simos::rng::scenario_seed(seed, &format!("N/count-mass/{profile}"), index));
        let l = 2 + rng.below(2) as usize;
        return CountScenario {
            engine: "N".into(),
            family: "count".into(),
            profile: profile.into(),
            variant: "x86_64-linux-native".into(),
            seed,
            index,
            site: "mass".into(),
            zero_counter: false,
            in_unwind: false,
            mass_lifetimes: l,
            lifetimes: Vec::new(),
            classes: vec![format!("mass-{}-sites-{}-lifetimes", MASS_N, l)],
        };
    }
    let mut rng = Rng::new(simos::rng::scenario_seed(seed, &format!("N/count/{profile}"), index));
    let site = (*rng.pick(&["a", "a", "b", "c", "d", "e"])).to_string();
    let n_l = if profile == "C07" { 2 + rng.below(5) as usize } else { 1 + rng.below(3) as usize };
    let mut classes = vec![format!("site-{site}")];
    let mut lifetimes = Vec::new();
    let has_when = site == "a" || site == "d";
    let gen_calls = |rng: &mut Rng, n: usize| -> (Vec<u32>, usize, usize) {
        let k = rng.below(n as u64 + 3) as usize;
        let mut calls: Vec<u32> = (0..k).map(|_| rng.below(100) as u32).collect();
        if site == "e" {
            // some admitted calls whose `returns` expression panics
            for c in calls.iter_mut() {
                if rng.chance(1, 3) {
                    *c = 55;
                }
            }
        }
        let nm = rng.below(4) as usize;
        if has_when {
            for _ in 0..nm {
                let pos = rng.below(calls.len() as u64 + 1) as usize;
                calls.insert(pos, 100 + rng.below(1000) as u32);
            }
        }
        (calls, k, if has_when { nm } else { 0 })
    };
    for _ in 0..n_l {
        let n_small = rng.below(7) as usize;
        let (calls, k, nm) = gen_calls(&mut rng, n_small);
        // "for all N >= 0": now and then an expectation far beyond anything a test would make,
        // a multiple of 2^32 (or 2^16, 2^31, 2^63) away from the number of calls
        let n = if rng.chance(1, 10) {
            let big = *rng.pick(&[1usize << 32, 1 << 16, 1 << 31, 1 << 63, 3 << 32, usize::MAX - 15]);
            classes.push("N-huge".into());
            n_small + big
        } else {
            n_small
        };
        let exit_panic = rng.chance(1, 5);
        // a quarter of the lifetimes evaluate the expression a second time (same N: the same set-up
        // code; or another N) and install the result again
        let second = if rng.chance(1, 4) {
            let (n2, n2_small) = if rng.chance(2, 3) { (n, n_small) } else { let x = rng.below(7) as usize; (x, x) };
            let (calls2, k2, _) = gen_calls(&mut rng, n2_small);
            let other = matches!(site.as_str(), "a" | "b" | "e") && rng.chance(1, 2);
            classes.push(format!("again-N{}-m{}-{}", n2, k2.min(9), if other { "other-function" } else { "same-function" }));
            Some(CSecond { n: n2, calls: calls2, other })
        } else {
            None
        };
        classes.push(format!("N{}-m{}-rej{}-{}", n, k.min(9), nm, if exit_panic { "unwind" } else { "drop" }));
        let mut prelude: Vec<String> = Vec::new();
        if rng.chance(1, 4) {
            for _ in 0..1 + rng.below(2) {
                prelude.push((*rng.pick(&["bool", "raw"])).into());
            }
            classes.push(format!("prelude{}", prelude.len()));
        }
        let refused_after: String = if rng.chance(1, 5) { (*rng.pick(&["uncounted_mismatch", "uncounted_mismatch", "raw_mismatch"])).into() } else { String::new() };
        if !refused_after.is_empty() {
            classes.push(format!("refused-after-{refused_after}"));
        }
        let prepared_ahead = !lifetimes.is_empty() && rng.chance(1, 4);
        if prepared_ahead {
            classes.push("prepared-ahead".into());
        }
        lifetimes.push(CLifetime { n, calls, exit_panic, second, prelude, refused_after, prepared_ahead, foreign_before: None });
    }
    if matches!(site.as_str(), "a" | "b" | "e") {
        // (own stream: the rest of the scenario does not depend on it)
        let mut frng = Rng::new(simos::rng::scenario_seed(seed, &format!("N/count-foreign/{profile}"), index));
        for lt in lifetimes.iter_mut() {
            if frng.chance(1, 4) && !lt.prepared_ahead {
                let others: Vec<&str> = ["a", "b", "e"].into_iter().filter(|x| *x != site).collect();
                lt.foreign_before = Some(((*frng.pick(&others)).to_string(), frng.below(4) as usize));
                classes.push("another-counted-site-on-the-same-function-between-lifetimes".into());
            }
        }
    }
    let in_unwind = rng.chance(1, 6);
    if in_unwind {
        classes.push("whole-scenario-while-unwinding".into());
    }
    classes.sort();
    classes.dedup();
    CountScenario {
        engine: "N".into(),
        family: "count".into(),
        profile: profile.into(),
        variant: "x86_64-linux-native".into(),
        seed,
        index,
        site,
        zero_counter: profile == "C06",
        in_unwind,
        mass_lifetimes: 0,
        lifetimes,
        classes,
    }
}

fn panic_msg(p: &Box<dyn std::any::Any + Send>) -> String {
    if let Some(s) = p.downcast_ref::<String>() {
        s.clone()
    } else if let Some(s) = p.downcast_ref::<&str>() {
        s.to_string()
    } else {
        "<non-string payload>".into()
    }
}

struct Injected;

pub fn execute(sc: &CountScenario, sh: &Shared) -> Value {
    if sc.mass_lifetimes > 0 {
        return execute_mass(sc, sh);
    }
    let viol: std::cell::RefCell<Vec<Value>> = std::cell::RefCell::new(Vec::new());
    let v = |tag: &str, props: &[&str], detail: String| {
        let mut viol = viol.borrow_mut();
        if viol.len() < 16 && !viol.iter().any(|x| x["tag"] == tag) {
            viol.push(json!({"tag": tag, "props": props, "detail": detail}));
        }
    };
    let mut digest = 0xC0u64;
    let mut mixd = |x: u64| {
        let mut s = digest ^ x.wrapping_mul(0x9E37_79B9_7F4A_7C15);
        digest = simos::rng::splitmix64(&mut s);
    };
    let mut calls_made = 0u64;
    let mut over_calls = 0u64;
    let mut user_panics = 0u64;
    let mut rejected = 0u64;
    let mut exit_panics_seen = 0u64;
    let has_when = sc.site == "a" || sc.site == "d";
    // in the C07 profile the verdict of a lifetime must depend on that lifetime's calls only
    let count_prop: &[&str] = if sc.zero_counter { &["C06"] } else { &["C06", "C07"] };
    let count_prop7: &[&str] = if sc.zero_counter { &["C06"] } else { &["C07"] };
    let mut second_installs = 0u64;
    let mut exit_not_judged = 0u64;
    let mut preludes = 0u64;
    let mut refusals = 0u64;
    let mut prepared_total = 0u64;
    let mut foreign_total = 0u64;
    struct InDrop<F: FnMut()>(Option<F>);
    impl<F: FnMut()> Drop for InDrop<F> {
        fn drop(&mut self) {
            if let Some(mut f) = self.0.take() {
                f()
            }
        }
    }
    struct Outer;
    {
    let mut all = || {
    // ManuallyDrop: a prepared pair that is never installed must not judge anything when let go
    let mut prepared: Option<std::mem::ManuallyDrop<(FuncPtr, CallCountVerifier)>> = None;
    let mut prepared_n = 0u64;
    for (li, lt) in sc.lifetimes.iter().enumerate() {
        sh.note(PH_OTHER, li as u64, 0, 0);
        if let Some((fsite, fnn)) = &lt.foreign_before {
            let (fstat, fadd): (&AtomicUsize, u64) = match fsite.as_str() {
                "a" => (&N_A, 7000),
                "b" => (&N_B, 7100),
                _ => (&N_E, 7300),
            };
            let keep = fstat.load(Ordering::SeqCst);
            fstat.store(*fnn, Ordering::SeqCst);
            let r = catch_unwind(AssertUnwindSafe(|| {
                let mut inj = InjectorPP::new();
                let pair = match fsite.as_str() {
                    "a" => site_a(),
                    "b" => site_b(),
                    _ => site_e(),
                };
                if sc.zero_counter {
                    if let CallCountVerifier::WithCount { counter, .. } = &pair.1 {
                        counter.store(0, Ordering::SeqCst);
                    }
                }
                inj.when_called(injectorpp::func!(fn (ct_add)(u32) -> u32)).will_execute(pair);
                let mut bad = None;
                for k in 0..*fnn {
                    let got = black_box(ct_add as fn(u32) -> u32)(k as u32) as u64;
                    if got != k as u64 + fadd {
                        bad = Some((k, got));
                    }
                }
                drop(inj);
                bad
            }));
            foreign_total += 1;
            calls_made += *fnn as u64;
            match r {
                Ok(None) => {}
                Ok(Some((k, got))) => v("admitted-call-wrong-result", &["C06"], format!("before lifetime {li}: a lifetime of another counted site ({fsite}, N={fnn}) on the same function: call {k} returned {got}")),
                Err(p) => v("call-within-budget-rejected", count_prop7, format!("before lifetime {li}: a complete lifetime of another counted site ({fsite}, N={fnn}, exactly {fnn} matching call(s)) on the same function panicked: {}", panic_msg(&p))),
            }
            fstat.store(keep, Ordering::SeqCst);
            if ct_add(41) != 42 {
                v("call-after-scope-exit-not-original", &["C02"], format!("before lifetime {li}: the function is not original after the other site's lifetime"));
            }
        }
        let nstat = match sc.site.as_str() {
            "a" => &N_A,
            "b" => &N_B,
            "c" => &N_C,
            "e" => &N_E,
            _ => &N_D,
        };
        let mut inj = InjectorPP::new();
        for (pi, p) in lt.prelude.iter().enumerate() {
            let r = catch_unwind(AssertUnwindSafe(|| match p.as_str() {
                "bool" => inj.when_called(injectorpp::func!(fn (ct_flag)(u32) -> bool)).will_return_boolean(pi % 2 == 0),
                _ => inj.when_called(injectorpp::func!(fn (ct_other)(u32) -> u32)).will_execute_raw(injectorpp::func!(fn (ct_raw_fake)(u32) -> u32)),
            }));
            if let Err(p) = r {
                v("install-of-counted-fake-panicked", &["C06"], format!("lifetime {li}: an uncounted installation before the counted one panicked: {}", panic_msg(&p)));
            }
            preludes += 1;
        }
        // stage 0: the installation of this lifetime; stage 1 (optional): the same expression
        // evaluated and installed again
        let mut stages: Vec<(usize, &Vec<u32>, bool)> = vec![(lt.n, &lt.calls, false)];
        if let Some(sec) = &lt.second {
            stages.push((sec.n, &sec.calls, sec.other));
        }
        let mut m = 0usize; // matching calls so far in the CURRENT installation
        let mut m_first = 0usize;
        let mut n_now = lt.n;
        let mut broke = false;
        for (si, (n_stage, calls, other)) in stages.iter().enumerate() {
            let other = *other;
            if si == 1 {
                m_first = m;
                second_installs += 1;
            }
            n_now = *n_stage;
            nstat.store(n_now, Ordering::SeqCst);
            let eval = || match sc.site.as_str() {
                "a" => site_a(),
                "b" => site_b(),
                "c" => site_c(),
                "e" => site_e(),
                _ => site_d(),
            };
            let pair = if si == 0 && lt.prepared_ahead && prepared.is_some() { std::mem::ManuallyDrop::into_inner(prepared.take().unwrap()) } else { eval() };
            if sc.zero_counter {
                if let CallCountVerifier::WithCount { counter, .. } = &pair.1 {
                    counter.store(0, Ordering::SeqCst);
                }
            }
            let target = match sc.site.as_str() {
                "a" | "b" | "e" if other => injectorpp::func!(fn (ct_add2)(u32) -> u32),
                "a" | "b" | "e" => injectorpp::func!(fn (ct_add)(u32) -> u32),
                "c" => injectorpp::func!(fn (ct_unit)(u32)),
                _ => injectorpp::func!(fn (ct_two)(u32, &mut u32) -> u32),
            };
            let r = catch_unwind(AssertUnwindSafe(|| inj.when_called(target).will_execute(pair)));
            if let Err(p) = r {
                v("install-of-counted-fake-panicked", &["C06"], format!("lifetime {li} installation {si}: {}", panic_msg(&p)));
                broke = true;
                break;
            }
            if si == 0 && !lt.refused_after.is_empty() {
                // a refused installation (caught by the test) must leave the pending expectation alone
                let r = catch_unwind(AssertUnwindSafe(|| match lt.refused_after.as_str() {
                    "uncounted_mismatch" => inj.when_called(injectorpp::func!(fn (ct_other)(u32) -> u32)).will_execute(injectorpp::fake!(func_type: fn(x: u64) -> u64, returns: x)),
                    _ => inj.when_called(injectorpp::func!(fn (ct_other)(u32) -> u32)).will_execute_raw(injectorpp::closure!(|| 1u32, fn() -> u32)),
                }));
                refusals += 1;
                match r {
                    Ok(()) => v("structurally-different-signature-accepted", &["C09"], format!("lifetime {li}: the mismatched installation ({}) was accepted", lt.refused_after)),
                    Err(p) => {
                        let msg = panic_msg(&p);
                        if !msg.contains("Signature mismatch") {
                            v("refusal-with-wrong-message", &["C09"], format!("lifetime {li}: refused installation ({}) panicked with {msg:?}", lt.refused_after));
                        }
                    }
                }
            }
            if si == 0 && sc.lifetimes.get(li + 1).map(|n| n.prepared_ahead).unwrap_or(false) {
                // evaluate the next lifetime's expression now (its `times` is read at evaluation),
                // then put this lifetime's N back: the fake reads `times` again at every call
                let next_n = sc.lifetimes[li + 1].n;
                nstat.store(next_n, Ordering::SeqCst);
                prepared = Some(std::mem::ManuallyDrop::new(eval()));
                nstat.store(n_now, Ordering::SeqCst);
                prepared_n += 1;
            }
            m = 0;
            for (ci, arg) in calls.iter().enumerate() {
                sh.note(PH_CALL_LIVE, li as u64, ci as u64, 0);
                let matching = !has_when || *arg < 100;
                let sink_before = UNIT_SINK.load(Ordering::SeqCst);
                let mut out_y = 5u32;
                let res = catch_unwind(AssertUnwindSafe(|| match sc.site.as_str() {
                    "a" | "b" | "e" if other => black_box(ct_add2 as fn(u32) -> u32)(*arg) as u64,
                    "a" | "b" | "e" => black_box(ct_add as fn(u32) -> u32)(*arg) as u64,
                    "c" => {
                        black_box(ct_unit as fn(u32))(*arg);
                        0
                    }
                    _ => black_box(ct_two as fn(u32, &mut u32) -> u32)(*arg, &mut out_y) as u64,
                }));
                calls_made += 1;
                let want_val: u64 = match sc.site.as_str() {
                    "a" => *arg as u64 + 7000,
                    "b" => *arg as u64 + 7100,
                    "e" => *arg as u64 + 7300,
                    "c" => 0,
                    _ => *arg as u64 + 7200,
                };
                let what = format!(
                    "lifetime {li}{} (N={}), call {ci} with argument {arg} ({}; {} matching call(s) before it in this installation)",
                    if si == 1 { format!(", second installation through the same expression ({} matching call(s) went to the first)", m_first) } else { String::new() },
                    n_now,
                    if matching { "matching" } else { "not matching `when`" },
                    m
                );
                match (&res, matching) {
                    (Ok(val), true) => {
                        mixd(*val);
                        if m >= n_now {
                            v("call-beyond-budget-admitted", count_prop, format!("{what}: returned {val} although the budget of {} was already used", n_now));
                        } else if *val != want_val {
                            v("admitted-call-wrong-result", &["C06"], format!("{what}: returned {val}, expected {want_val}"));
                        }
                        if sc.site == "d" && out_y != 77 {
                            v("assign-not-applied", &["C06"], format!("{what}: out-parameter is {out_y}, expected 77"));
                        }
                        if sc.site == "c" && UNIT_SINK.load(Ordering::SeqCst) != sink_before {
                            v("original-body-ran-while-faked", &["C06"], format!("{what}: the original unit function ran"));
                        }
                        m += 1;
                    }
                    (Err(p), true) if sc.site == "e" && *arg == 55 && m < n_now && panic_msg(p).contains("boom in returns") => {
                        // admitted, counted, and the user's own expression panicked: budget consumed
                        mixd(3);
                        user_panics += 1;
                        m += 1;
                    }
                    (Err(p), true) => {
                        let msg = panic_msg(p);
                        mixd(1);
                        if m < n_now {
                            v("call-within-budget-rejected", count_prop7, format!("{what}: panicked with {msg:?} although only {m} of {} admitted calls were used in this installation", n_now));
                        } else if !msg.contains("more times than expected") {
                            v("over-call-wrong-message", &["C06"], format!("{what}: panicked with {msg:?}"));
                        } else {
                            over_calls += 1;
                        }
                        m += 1;
                    }
                    (Ok(val), false) => {
                        v("non-matching-call-admitted", &["C06"], format!("{what}: returned {val} instead of panicking"));
                    }
                    (Err(p), false) => {
                        let msg = panic_msg(p);
                        mixd(2);
                        rejected += 1;
                        if !msg.contains("unexpected arguments") {
                            v("rejected-call-wrong-message", &["C06"], format!("{what}: panicked with {msg:?}"));
                        }
                        if sc.site == "d" && out_y != 5 {
                            v("rejected-call-had-side-effect", &["C06"], format!("{what}: out-parameter changed to {out_y}"));
                        }
                    }
                }
            }
        }
        if broke {
            break;
        }
        // Two installations through one expression share one counter and leave two verifiers
        // behind; the first verifier then judges the second installation's calls.  Whether that
        // is what C07 wants is not for this check to decide: the scope-exit verdict is judged
        // only where reading the statement literally (each installation against its own calls)
        // and the shared-counter reading agree.
        let n_last = lt.second.as_ref().map(|x| x.n).unwrap_or(lt.n);
        let (exit_judged, expect_panic) = match &lt.second {
            None => (true, m != lt.n),
            Some(_) => {
                let literal = m_first != lt.n || m != n_last;
                let shared = m != lt.n || m != n_last;
                (literal == shared, literal)
            }
        };
        let _ = n_now;
        // scope exit
        sh.note(PH_DROP, li as u64, 0, lt.exit_panic as u64);
        let before = PANICS.load(Ordering::SeqCst);
        let r = catch_unwind(AssertUnwindSafe(move || {
            let _inj = inj;
            if lt.exit_panic {
                std::panic::panic_any(Injected);
            }
        }));
        let panics_here = PANICS.load(Ordering::SeqCst) - before;
        let what = format!("lifetime {li} scope exit (N={}, {} matching call(s) in the latest installation, {})", n_last, m, if lt.exit_panic { "already unwinding" } else { "normal drop" });
        match r {
            Ok(()) => {
                mixd(10);
                if !exit_judged {
                    exit_not_judged += 1;
                } else if expect_panic && !sc.in_unwind {
                    v("count-mismatch-not-reported-at-scope-exit", count_prop, format!("{what}: no panic"));
                }
            }
            Err(p) if p.is::<Injected>() => {
                mixd(11);
                if panics_here > 1 {
                    v("second-panic-while-unwinding", &["C06", "C05"], format!("{what}: {panics_here} panics were raised"));
                }
            }
            Err(p) if sc.in_unwind => {
                mixd(13);
                v("second-panic-while-unwinding", &["C06", "C05"], format!("{what}: the thread was already unwinding (the lifetime runs inside a destructor) and scope exit raised another panic: {}", panic_msg(&p)));
            }
            Err(p) => {
                let msg = panic_msg(&p);
                mixd(12);
                exit_panics_seen += 1;
                if !exit_judged {
                    exit_not_judged += 1;
                } else if !expect_panic {
                    v("spurious-count-mismatch-at-scope-exit", count_prop7, format!("{what}: panicked with {msg:?}"));
                } else {
                    let nums: Vec<usize> = msg.split(|c: char| !c.is_ascii_digit()).filter(|t| !t.is_empty()).filter_map(|t| t.parse().ok()).collect();
                    let names_both = nums.contains(&n_last) && nums.contains(&m) || lt.second.is_some() && nums.contains(&lt.n) && (nums.contains(&m) || nums.contains(&m_first));
                    if !names_both {
                        v("scope-exit-message-names-wrong-numbers", count_prop7, format!("{what}: message {msg:?} does not name expected {} and actual {}", n_last, m));
                    }
                }
            }
        }
        // originals are back
        sh.note(PH_CALL_AFTER, li as u64, 0, lt.exit_panic as u64);
        if ct_add(41) != 42 || ct_add2(41) != 44 || ct_other(1) != 12 || ct_flag(9) != true || ct_flag(1) != false {
            v("call-after-scope-exit-not-original", &["C02"], format!("lifetime {li}: a function is not original after scope exit"));
        }
        if !viol.borrow().is_empty() {
            break;
        }
    }
    prepared_total += prepared_n;
    };
    if sc.in_unwind {
        let r = catch_unwind(AssertUnwindSafe(|| {
            let _g = InDrop(Some(&mut all));
            std::panic::panic_any(Outer);
        }));
        if let Err(p) = r {
            if !p.is::<Outer>() {
                v("second-panic-while-unwinding", &["C06", "C05"], format!("a panic escaped the fixture's destructor: {}", panic_msg(&p)));
            }
        }
    } else {
        all();
    }
    }
    sh.note(PH_DONE, 0, 0, 0);
    let mut faults = serde_json::Map::new();
    if over_calls > 0 {
        faults.insert("over_call_panics".into(), json!(over_calls));
    }
    if rejected > 0 {
        faults.insert("rejected_argument_panics".into(), json!(rejected));
    }
    if user_panics > 0 {
        faults.insert("panic_inside_returns_expression_of_admitted_call".into(), json!(user_panics));
    }
    if exit_panics_seen > 0 {
        faults.insert("verification_panics_at_scope_exit".into(), json!(exit_panics_seen));
    }
    let unwinds = sc.lifetimes.iter().filter(|l| l.exit_panic).count();
    if unwinds > 0 {
        faults.insert("injected_panic_at_scope_exit".into(), json!(unwinds));
    }
    let mut probes = serde_json::Map::new();
    if sc.lifetimes.len() > 1 {
        probes.insert("same_site_reused_across_lifetimes".into(), json!(sc.lifetimes.len() - 1));
    }
    if second_installs > 0 {
        probes.insert("same_site_installed_twice_in_one_lifetime".into(), json!(second_installs));
    }
    if preludes > 0 {
        probes.insert("uncounted_installs_before_the_counted_one".into(), json!(preludes));
    }
    if prepared_total > 0 {
        probes.insert("fake_expression_evaluated_a_lifetime_ahead".into(), json!(prepared_total));
    }
    if foreign_total > 0 {
        probes.insert("another_counted_site_on_the_same_function_between_lifetimes".into(), json!(foreign_total));
    }
    if refusals > 0 {
        faults.insert("refused_install_with_expectation_pending".into(), json!(refusals));
    }
    if exit_not_judged > 0 {
        probes.insert("scope_exit_verdict_not_judged_two_installations_share_a_counter".into(), json!(exit_not_judged));
    }
    json!({
        "violations": viol.into_inner(),
        "digest": format!("{:016x}", digest),
        "probes": probes,
        "faults": faults,
        "events": calls_made,
        "calls": calls_made,
        "installs_ok": sc.lifetimes.len(),
        "installs_refused": 0,
    })
}
