//! Engine N, family "async" (C14): a family of sibling async functions, seeded histories of
//! fake / await xN / re-fake / drop / new lifetime, awaits from the holder thread and from other
//! threads, under a hand-written single-poll executor that counts polls.

use crate::contain::*;
use crate::interpose;
use injectorpp::interface::injector::*;
use serde::{Deserialize, Serialize};
use serde_json::{json, Value};
use simos::rng::Rng;
use std::future::Future;
use std::hint::black_box;
use std::panic::{catch_unwind, AssertUnwindSafe};
use std::pin::Pin;
use std::sync::atomic::{AtomicUsize, Ordering};
use std::task::{Context, Poll, RawWaker, RawWakerVTable, Waker};

pub const NF: usize = 9;
#[allow(clippy::declare_interior_mutable_const)]
const Z: AtomicUsize = AtomicUsize::new(0);
pub static BODY: [AtomicUsize; NF] = [Z; NF];
pub static SEQ: [AtomicUsize; NF] = [Z; NF];

pub struct Svc {
    pub k: u32,
}

pub async fn af_unit(x: u32) {
    BODY[0].fetch_add(1 + (black_box(x) as usize & 0), Ordering::SeqCst);
}
pub async fn af_u32(x: u32) -> u32 {
    BODY[1].fetch_add(1, Ordering::SeqCst);
    black_box(x) + 1
}
pub async fn af_u32_sib(x: u32) -> u32 {
    BODY[2].fetch_add(1, Ordering::SeqCst);
    black_box(x) + 2
}
pub async fn af_bool(x: &u32) -> bool {
    BODY[3].fetch_add(1, Ordering::SeqCst);
    black_box(*x) > 10
}
pub async fn af_string(s: &str) -> String {
    BODY[4].fetch_add(1, Ordering::SeqCst);
    format!("orig-{}", black_box(s))
}
pub async fn af_string_sib(s: String) -> String {
    BODY[5].fetch_add(1, Ordering::SeqCst);
    format!("sib-{}", black_box(s))
}
pub async fn af_big(x: u64) -> [u64; 32] {
    BODY[6].fetch_add(1, Ordering::SeqCst);
    [black_box(x); 32]
}
impl Svc {
    pub async fn m_u32(&self, x: u32) -> u32 {
        BODY[7].fetch_add(1, Ordering::SeqCst);
        self.k + black_box(x)
    }
    pub async fn m_string(&self) -> String {
        BODY[8].fetch_add(1, Ordering::SeqCst);
        format!("svc-{}", self.k)
    }
}

fn noop_waker() -> Waker {
    fn clone(_: *const ()) -> RawWaker {
        RawWaker::new(std::ptr::null(), &VT)
    }
    fn noop(_: *const ()) {}
    static VT: RawWakerVTable = RawWakerVTable::new(clone, noop, noop, noop);
    unsafe { Waker::from_raw(RawWaker::new(std::ptr::null(), &VT)) }
}

/// One poll through a real call of the future type's poll function (what `.await` compiles to
/// when nothing is inlined): returns the result of the *first* poll.
fn first_poll<F: Future>(f: F) -> Poll<F::Output> {
    let mut f = std::pin::pin!(f);
    let w = noop_waker();
    let mut cx = Context::from_waker(&w);
    let p: fn(Pin<&mut F>, &mut Context<'_>) -> Poll<F::Output> = <F as Future>::poll;
    black_box(p)(f.as_mut(), &mut cx)
}

/// Result of one await rendered as a comparable string (None = still pending after one poll).
fn await_func(func: usize, arg: u32) -> Option<String> {
    let svc = Svc { k: 7 };
    match func {
        0 => match first_poll(af_unit(arg)) {
            Poll::Ready(()) => Some("()".into()),
            Poll::Pending => None,
        },
        1 => ready(first_poll(af_u32(arg)).map(|v| v.to_string())),
        2 => ready(first_poll(af_u32_sib(arg)).map(|v| v.to_string())),
        3 => ready(first_poll(af_bool(&arg)).map(|v| v.to_string())),
        4 => ready(first_poll(af_string(&arg.to_string()))),
        5 => ready(first_poll(af_string_sib(arg.to_string()))),
        6 => ready(first_poll(af_big(arg as u64)).map(|v| format!("{}x{}", v[0], v.iter().filter(|x| **x == v[0]).count()))),
        7 => ready(first_poll(svc.m_u32(arg)).map(|v| v.to_string())),
        _ => ready(first_poll(svc.m_string())),
    }
}
fn ready(p: Poll<String>) -> Option<String> {
    match p {
        Poll::Ready(s) => Some(s),
        Poll::Pending => None,
    }
}

fn original_value(func: usize, arg: u32) -> String {
    match func {
        0 => "()".into(),
        1 => (arg + 1).to_string(),
        2 => (arg + 2).to_string(),
        3 => (arg > 10).to_string(),
        4 => format!("orig-{arg}"),
        5 => format!("sib-{arg}"),
        6 => format!("{arg}x32"),
        7 => (7 + arg).to_string(),
        _ => "svc-7".into(),
    }
}

/// value produced by fake site `site` of function `func` when its sequence counter reads `seq`
fn fake_value(func: usize, site: usize, seq: usize) -> String {
    let base = 1000 * (site as u64 + 4) + seq as u64;
    match func {
        0 => "()".into(),
        1 | 2 | 7 => base.to_string(),
        3 => (seq % 2 == site % 2).to_string(),
        4 | 5 | 8 => format!("fake{site}-{seq}"),
        _ => format!("{}x32", base),
    }
}

macro_rules! seqv {
    ($f:literal) => {
        crate::asyncf::SEQ[$f].fetch_add(1, std::sync::atomic::Ordering::SeqCst)
    };
}

/// Install fake `site` (0/1) for `func`, checked or unchecked flavour.
fn install(inj: &mut InjectorPP, func: usize, site: usize, unchecked: bool) {
    let svc = Svc { k: 7 };
    macro_rules! go {
        ($fut:expr, $ty:ty, $e0:expr, $e1:expr) => {{
            if unchecked {
                unsafe {
                    if site == 0 {
                        inj.when_called_async_unchecked(injectorpp::async_func_unchecked!($fut)).will_return_async_unchecked(injectorpp::async_return_unchecked!($e0, $ty));
                    } else {
                        inj.when_called_async_unchecked(injectorpp::async_func_unchecked!($fut)).will_return_async_unchecked(injectorpp::async_return_unchecked!($e1, $ty));
                    }
                }
            } else if site == 0 {
                inj.when_called_async(injectorpp::async_func!($fut, $ty)).will_return_async(injectorpp::async_return!($e0, $ty));
            } else {
                inj.when_called_async(injectorpp::async_func!($fut, $ty)).will_return_async(injectorpp::async_return!($e1, $ty));
            }
        }};
    }
    match func {
        0 => go!(af_unit(0), (), { let _ = seqv!(0); }, { let _ = seqv!(0); }),
        1 => go!(af_u32(0), u32, 4000 + seqv!(1) as u32, 5000 + seqv!(1) as u32),
        2 => go!(af_u32_sib(0), u32, 4000 + seqv!(2) as u32, 5000 + seqv!(2) as u32),
        3 => go!(af_bool(&0), bool, seqv!(3) % 2 == 0, seqv!(3) % 2 == 1),
        4 => go!(af_string(""), String, format!("fake0-{}", seqv!(4)), format!("fake1-{}", seqv!(4))),
        5 => go!(af_string_sib(String::new()), String, format!("fake0-{}", seqv!(5)), format!("fake1-{}", seqv!(5))),
        6 => go!(af_big(0), [u64; 32], [4000 + seqv!(6) as u64; 32], [5000 + seqv!(6) as u64; 32]),
        7 => go!(svc.m_u32(0), u32, 4000 + seqv!(7) as u32, 5000 + seqv!(7) as u32),
        _ => go!(svc.m_string(), String, format!("fake0-{}", seqv!(8)), format!("fake1-{}", seqv!(8))),
    }
}


// ---- many sibling async functions, each with its own fake site ---------------------------------
pub static BODYM: AtomicUsize = AtomicUsize::new(0);
pub async fn af_mass<const K: u32>(x: u32) -> u32 {
    BODYM.fetch_add(1, Ordering::SeqCst);
    black_box(x).wrapping_mul(3).wrapping_add(K)
}
macro_rules! amass {
    ($($k:literal)*) => {
        pub const AMASS_N: usize = [$($k),*].len();
        /// fake site k goes on function k: each arm is its own `async_return!` expression
        fn amass_install(inj: &mut InjectorPP, k: usize) {
            match k {
                $($k => inj.when_called_async(injectorpp::async_func!(af_mass::<$k>(0), u32)).will_return_async(injectorpp::async_return!(6000 + $k, u32)),)*
                _ => unreachable!(),
            }
        }
        fn amass_await(k: usize, arg: u32) -> Option<u32> {
            match k {
                $($k => match first_poll(af_mass::<$k>(arg)) { Poll::Ready(v) => Some(v), Poll::Pending => None },)*
                _ => None,
            }
        }
    };
}
amass!(0 1 2 3 4 5 6 7 8 9 10 11 12 13 14 15 16 17 18 19 20 21 22 23 24 25 26 27 28 29 30 31 32 33 34 35 36 37 38 39 40 41 42 43 44 45 46 47 48 49 50 51 52 53 54 55 56 57 58 59 60 61 62 63);

/// Lifetimes that each fake a list of the sibling functions (an earlier lifetime's fixtures run
/// again, new ones added): every faked one completes at once with its own value, every other one
/// is the original, and after scope exit all are original.
fn execute_mass(sc: &AsyncScenario, sh: &Shared) -> Value {
    let mut viol: Vec<Value> = Vec::new();
    let mut digest = 0xA3A55u64;
    let mut awaits = 0u64;
    let mut fakes = 0u64;
    unsafe { libc::alarm(60) };
    'life: for (li, list) in sc.mass.iter().enumerate() {
        sh.note(PH_INSTALL, li as u64, 0, 0);
        let r = catch_unwind(AssertUnwindSafe(|| {
            let mut inj = InjectorPP::new();
            let mut bad: Vec<String> = Vec::new();
            let mut live = vec![false; AMASS_N];
            for (oi, k) in list.iter().enumerate() {
                sh.note(PH_INSTALL, li as u64, oi as u64, *k as u64);
                amass_install(&mut inj, *k % AMASS_N);
                live[*k % AMASS_N] = true;
            }
            sh.note(PH_CALL_LIVE, li as u64, 0, 0);
            for k in 0..AMASS_N {
                let before = BODYM.load(Ordering::SeqCst);
                let got = amass_await(k, 5);
                let ran = BODYM.load(Ordering::SeqCst) - before;
                if live[k] {
                    if got != Some(6000 + k as u32) || ran != 0 {
                        bad.push(format!("faked sibling #{k}: first poll gave {:?} (original body ran {ran}x), its fake completes at once with {}", got, 6000 + k as u32));
                    }
                } else if got != Some(15 + k as u32) || ran != 1 {
                    bad.push(format!("sibling #{k}, not faked in this lifetime: first poll gave {:?} (original body ran {ran}x), the original gives {}", got, 15 + k as u32));
                }
            }
            sh.note(PH_DROP, li as u64, 0, 0);
            drop(inj);
            bad
        }));
        fakes += list.len() as u64;
        awaits += AMASS_N as u64;
        digest = digest.rotate_left(5) ^ (list.len() as u64 * 31 + li as u64);
        match r {
            Ok(bad) => {
                if let Some(b) = bad.first() {
                    viol.push(json!({"tag": if b.starts_with("faked") { "faked-await-wrong-value" } else { "unfaked-async-function-changed-behaviour" }, "props": if b.starts_with("faked") { json!(["C14"]) } else { json!(["C14", "C03"]) },
                        "detail": format!("lifetime {li} ({} sibling async functions faked through one injector; {} fake sites seen by this process so far): {} problem(s), first: {b}", list.len(), sc.mass[..=li].iter().flatten().collect::<std::collections::BTreeSet<_>>().len(), bad.len())}));
                    break 'life;
                }
            }
            Err(p) => {
                viol.push(json!({"tag": "install-of-async-fake-panicked", "props": ["C14"], "detail": format!("lifetime {li}: {}", panic_msg(&p))}));
                break 'life;
            }
        }
        sh.note(PH_CALL_AFTER, li as u64, 0, 0);
        for k in 0..AMASS_N {
            let before = BODYM.load(Ordering::SeqCst);
            let got = amass_await(k, 9);
            if got != Some(27 + k as u32) || BODYM.load(Ordering::SeqCst) - before != 1 {
                viol.push(json!({"tag": "async-function-not-original-after-scope-exit", "props": ["C14", "C02"], "detail": format!("lifetime {li}: sibling #{k} gives {:?} after the injector went, the original gives {}", got, 27 + k as u32)}));
                break 'life;
            }
        }
        awaits += AMASS_N as u64;
    }
    unsafe { libc::alarm(0) };
    sh.note(PH_DONE, 0, 0, 0);
    json!({
        "violations": viol,
        "digest": format!("{:016x}", digest),
        "probes": {"async_fake_sites_in_one_process_history": sc.mass.iter().flatten().collect::<std::collections::BTreeSet<_>>().len(), "fixture_of_an_earlier_lifetime_run_again": sc.mass.len().saturating_sub(1)},
        "faults": {},
        "events": awaits,
        "calls": awaits,
        "installs_ok": fakes,
        "installs_refused": 0,
    })
}

#[derive(Serialize, Deserialize, Clone, Debug, PartialEq)]
pub struct AOp {
    /// fake | await
    pub op: String,
    pub func: usize,
    pub site: usize,
    pub unchecked: bool,
    pub arg: u32,
    pub threads: usize,
    /// fake only: "" | "mprotect" (the next mprotect is refused) | "enomem" (no executable mapping)
    #[serde(default)]
    pub fault: String,
}

#[derive(Serialize, Deserialize, Clone, Debug, PartialEq)]
pub struct ALifetime {
    pub ops: Vec<AOp>,
    pub exit_panic: bool,
}

#[derive(Serialize, Deserialize, Clone, Debug, PartialEq)]
pub struct AsyncScenario {
    pub engine: String,
    pub family: String,
    pub profile: String,
    pub variant: String,
    pub seed: u64,
    pub index: u64,
    pub lifetimes: Vec<ALifetime>,
    /// Some(f): instead of the lifetimes, ONE thread tries to hold two injectors at once, both
    /// faking async function #f, and lets go of the older one first (two fields of a fixture).
    /// Where creating the second injector blocks forever there is nothing to judge.
    #[serde(default)]
    pub nested: Option<usize>,
    /// non-empty: instead of the lifetimes, one list per lifetime of sibling functions (of
    /// AMASS_N) to fake, each through its own site, all through one injector
    #[serde(default)]
    pub mass: Vec<Vec<usize>>,
    pub classes: Vec<String>,
}

pub fn generate(profile: &str, seed: u64, index: u64) -> AsyncScenario {
    if index % 19 == 18 {
        let mut rng = Rng::new(simos::rng::scenario_seed(seed, &format!("N/async-mass/{profile}"), index));
        let mut order: Vec<usize> = (0..AMASS_N).collect();
        for i in (1..order.len()).rev() {
            let j = rng.below(i as u64 + 1) as usize;
            order.swap(i, j);
        }
        // phase 1: the sites are met a few at a time; phase 2: earlier fixtures run again, then new ones
        let p1 = 30 + rng.below(20) as usize;
        let mut mass: Vec<Vec<usize>> = Vec::new();
        let mut pos = 0;
        while pos < p1 {
            let n = (1 + rng.below(8) as usize).min(p1 - pos);
            mass.push(order[pos..pos + n].to_vec());
            pos += n;
        }
        for _ in 0..1 + rng.below(3) {
            let mut seen: Vec<usize> = order[..pos].to_vec();
            for i in (1..seen.len()).rev() {
                let j = rng.below(i as u64 + 1) as usize;
                seen.swap(i, j);
            }
            let keep = seen.len() / 2 + rng.below(seen.len() as u64 / 2 + 1) as usize;
            let mut l: Vec<usize> = seen[..keep].to_vec();
            let fresh = (1 + rng.below(3) as usize).min(AMASS_N - pos);
            l.extend_from_slice(&order[pos..pos + fresh]);
            pos += fresh;
            mass.push(l);
        }
        let classes = vec![format!("mass-async-{}-lifetimes-{}-sites", mass.len(), pos)];
        return AsyncScenario { engine: "N".into(), family: "async".into(), profile: profile.into(), variant: "x86_64-linux-native".into(), seed, index, lifetimes: Vec::new(), nested: None, mass, classes };
    }
    let mut rng = Rng::new(simos::rng::scenario_seed(seed, &format!("N/async/{profile}"), index));
    let n_l = 1 + rng.below(3) as usize;
    let mut classes = Vec::new();
    let mut lifetimes = Vec::new();
    for _ in 0..n_l {
        let n_ops = 1 + rng.below(10) as usize;
        let mut ops = Vec::new();
        let mut faked: Vec<usize> = Vec::new();
        for _ in 0..n_ops {
            if rng.chance(2, 5) {
                let func = if !faked.is_empty() && rng.chance(1, 3) { *rng.pick(&faked) } else { rng.below(NF as u64) as usize };
                let refake = faked.contains(&func);
                let fault = if rng.chance(1, 8) { *rng.pick(&["mprotect", "mprotect", "enomem"]) } else { "" };
                let op = AOp { op: "fake".into(), func, site: rng.below(2) as usize, unchecked: rng.chance(1, 3), arg: 0, threads: 0, fault: fault.into() };
                classes.push(format!("fake-f{func}-{}{}{}", if op.unchecked { "unchecked" } else { "checked" }, if refake { "-refake" } else { "" }, if fault.is_empty() { String::new() } else { format!("-{fault}") }));
                if fault.is_empty() {
                    faked.push(func);
                }
                ops.push(op);
            } else {
                // await: bias to faked functions and their siblings
                let func = if !faked.is_empty() && rng.chance(1, 2) {
                    let f = *rng.pick(&faked);
                    if rng.chance(1, 4) {
                        match f {
                            1 => 2,
                            2 => 1,
                            4 => 5,
                            5 => 4,
                            7 => 1,
                            x => x,
                        }
                    } else {
                        f
                    }
                } else {
                    rng.below(NF as u64) as usize
                };
                let threads = if rng.chance(1, 4) { 1 + rng.below(3) as usize } else { 0 };
                if threads > 0 {
                    classes.push("await-from-other-threads".into());
                }
                ops.push(AOp { op: "await".into(), func, site: 0, unchecked: false, arg: rng.below(1000) as u32, threads, fault: String::new() });
            }
        }
        let exit_panic = rng.chance(1, 6);
        classes.push(format!("ops{}-{}", n_ops.min(10), if exit_panic { "unwind" } else { "drop" }));
        lifetimes.push(ALifetime { ops, exit_panic });
    }
    classes.sort();
    classes.dedup();
    let nested = if index % 17 == 16 { Some(rng.below(NF as u64) as usize) } else { None };
    if let Some(f) = nested {
        classes = vec![format!("two-injectors-on-one-thread-f{f}")];
    }
    AsyncScenario { engine: "N".into(), family: "async".into(), profile: profile.into(), variant: "x86_64-linux-native".into(), seed, index, lifetimes, nested, mass: Vec::new(), classes }
}

struct Injected;

fn panic_msg(p: &Box<dyn std::any::Any + Send>) -> String {
    if let Some(s) = p.downcast_ref::<String>() {
        s.clone()
    } else if let Some(s) = p.downcast_ref::<&str>() {
        s.to_string()
    } else {
        "<non-string payload>".into()
    }
}

pub fn execute(sc: &AsyncScenario, sh: &Shared) -> Value {
    if !sc.mass.is_empty() {
        return execute_mass(sc, sh);
    }
    let viol: std::cell::RefCell<Vec<Value>> = std::cell::RefCell::new(Vec::new());
    let v = |tag: &str, props: &[&str], detail: String| {
        let mut viol = viol.borrow_mut();
        if viol.len() < 16 && !viol.iter().any(|x| x["tag"] == tag) {
            viol.push(json!({"tag": tag, "props": props, "detail": detail}));
        }
    };
    let mut digest = 0xA5u64;
    let mut awaits = 0u64;
    let mut fakes = 0u64;
    let mut probes: std::collections::BTreeMap<String, u64> = Default::default();
    // one await, judged against the model
    let check_await = |li: usize, oi: usize, func: usize, arg: u32, model: &Vec<Vec<usize>>, digest: &mut u64, after_drop: bool| {
        let body_before = BODY[func].load(Ordering::SeqCst);
        let seq_before = SEQ[func].load(Ordering::SeqCst);
        let got = await_func(func, arg);
        let body_after = BODY[func].load(Ordering::SeqCst);
        let what = format!("lifetime {li} op {oi}: await of async function #{func}({arg})");
        for b in got.clone().unwrap_or_default().bytes() {
            *digest = digest.rotate_left(5) ^ b as u64;
        }
        match model[func].last() {
            Some(site) => {
                let want = fake_value(func, *site, seq_before);
                match got {
                    None => v("faked-await-not-ready-on-first-poll", &["C14"], format!("{what}: first poll returned Pending")),
                    Some(g) if g != want => v("faked-await-wrong-value", &["C14"], format!("{what}: completed with {g:?}, a fresh evaluation of fake site {site} gives {want:?} (sequence counter {seq_before})")),
                    _ => {}
                }
                if body_after != body_before {
                    v("original-body-ran-while-faked", &["C14"], format!("{what}: the original body ran"));
                }
            }
            None => {
                let want = original_value(func, arg);
                let props: &[&str] = if after_drop { &["C14", "C02"] } else { &["C14", "C03"] };
                match got {
                    Some(g) if g == want && body_after == body_before + 1 => {}
                    other => v(
                        if after_drop { "async-function-not-original-after-scope-exit" } else { "unfaked-async-function-changed-behaviour" },
                        props,
                        format!("{what}: got {:?} (body ran {} time(s)), the original gives {want:?}", other, body_after - body_before),
                    ),
                }
            }
        }
    };
    if let Some(func) = sc.nested {
        unsafe { libc::alarm(15) };
        let func = func % NF;
        let mut model: Vec<Vec<usize>> = vec![Vec::new(); NF];
        let mut inj1 = InjectorPP::new();
        install(&mut inj1, func, 0, false);
        model[func].push(0);
        check_await(0, 0, func, 5, &model, &mut digest, false);
        if viol.borrow().is_empty() {
            let returned = std::sync::Arc::new(std::sync::atomic::AtomicBool::new(false));
            let r2 = returned.clone();
            std::thread::spawn(move || {
                std::thread::sleep(std::time::Duration::from_millis(250));
                if !r2.load(Ordering::SeqCst) {
                    // the second injector cannot be created while the first is alive: lifetimes on
                    // one thread never overlap on this tree, nothing to judge
                    crate::contain::report_and_exit(&json!({
                        "violations": [], "digest": "00000000000b10c4", "probes": {"second_injector_on_the_same_thread_blocks": 1},
                        "faults": {}, "events": 1, "calls": 1, "installs_ok": 1, "installs_refused": 0,
                    }));
                }
            });
            let mut inj2 = InjectorPP::new(); // blocks forever on a tree whose guard is not re-entrant
            returned.store(true, Ordering::SeqCst);
            *probes.entry("two_injectors_alive_on_one_thread".into()).or_insert(0) += 1;
            install(&mut inj2, func, 1, false);
            model[func].push(1);
            check_await(0, 1, func, 6, &model, &mut digest, false);
            // the older injector goes first; the newer one is still alive and still fakes the function
            drop(inj1);
            check_await(0, 2, func, 7, &model, &mut digest, false);
            for f in 0..NF {
                if f != func {
                    check_await(0, 3, f, 8, &model, &mut digest, false);
                }
            }
            drop(inj2);
            let empty: Vec<Vec<usize>> = vec![Vec::new(); NF];
            for f in 0..NF {
                check_await(0, 999, f, 3 + f as u32, &empty, &mut digest, true);
            }
            awaits += 4 + 2 * NF as u64;
            fakes += 2;
        } else {
            drop(inj1);
        }
    }
    for (li, lt) in sc.lifetimes.iter().enumerate() {
        if sc.nested.is_some() {
            break;
        }
        unsafe { libc::alarm(15) };
        let mut model: Vec<Vec<usize>> = vec![Vec::new(); NF];
        let mut inj = InjectorPP::new();
        for (oi, op) in lt.ops.iter().enumerate() {
            if op.op == "fake" {
                sh.note(PH_INSTALL, li as u64, oi as u64, 0);
                // another executor thread awaits the function at every OS-call boundary of the
                // installation: once faked, it must never see the original again
                let (func, new_site) = (op.func, op.site);
                let old_site = model[func].last().copied();
                let findings: std::rc::Rc<std::cell::RefCell<Vec<String>>> = Default::default();
                let f2 = findings.clone();
                let obs_n: std::rc::Rc<std::cell::Cell<u64>> = Default::default();
                let obs_n2 = obs_n.clone();
                interpose::set_observer(Some(Box::new(move |point| {
                    let body_before = BODY[func].load(Ordering::SeqCst);
                    let seq_before = SEQ[func].load(Ordering::SeqCst);
                    let got = await_func(func, 11);
                    let ran = BODY[func].load(Ordering::SeqCst) - body_before;
                    obs_n2.set(obs_n2.get() + 1);
                    let mut allowed: Vec<(String, usize)> = vec![(fake_value(func, new_site, seq_before), 0)];
                    match old_site {
                        Some(s0) => allowed.push((fake_value(func, s0, seq_before), 0)),
                        None => allowed.push((original_value(func, 11), 1)),
                    }
                    let ok = allowed.iter().any(|(v, r)| got.as_deref() == Some(v.as_str()) && ran == *r);
                    if !ok {
                        f2.borrow_mut().push(format!("at the {point} boundary an await on another thread gave {:?} (original body ran {ran}x); allowed {:?}", got, allowed));
                    }
                })));
                let mut fl = interpose::Faults::default();
                match op.fault.as_str() {
                    "mprotect" => fl.mprotect_fail_next = true,
                    "enomem" => fl.enomem_all = true,
                    _ => {}
                }
                interpose::set_faults(fl);
                interpose::arm(true);
                let r = catch_unwind(AssertUnwindSafe(|| install(&mut inj, op.func, op.site, op.unchecked)));
                interpose::arm(false);
                interpose::set_observer(None);
                let fl = interpose::faults();
                interpose::set_faults(interpose::Faults::default());
                let refused = fl.fired_enomem > 0 || fl.fired_mprotect > 0;
                if refused {
                    *probes.entry(format!("os_refusal_during_async_fake[{}]", op.fault)).or_insert(0) += 1;
                }
                awaits += obs_n.get();
                if obs_n.get() > 0 {
                    *probes.entry("awaits_interleaved_with_installation".into()).or_insert(0) += obs_n.get();
                }
                if let Some(f) = findings.borrow().first() {
                    let tag = if old_site.is_some() { "await-during-refake-saw-something-else-than-a-fake" } else { "await-during-first-fake-inconsistent" };
                    v(tag, &["C14", "C02"], format!("lifetime {li} op {oi} (fake #{} site {}): {f}", op.func, op.site));
                }
                match r {
                    Err(_) if refused => {
                        // a refused installation changes nothing: the function keeps the behaviour it had
                        awaits += 1;
                        check_await(li, oi, op.func, 17, &model, &mut digest, false);
                    }
                    Ok(()) => {
                        // (an installation may legitimately survive a refused OS call, e.g. a
                        // protection change it does not depend on: it is judged by behaviour)
                        if refused {
                            *probes.entry("install_succeeded_although_an_os_call_was_refused".into()).or_insert(0) += 1;
                        }
                        fakes += 1;
                        if !model[op.func].is_empty() {
                            *probes.entry("async_refake_same_function".into()).or_insert(0) += 1;
                        }
                        model[op.func].push(op.site);
                    }
                    Err(p) => v("async-install-panicked", &["C14"], format!("lifetime {li} op {oi}: faking async function #{} panicked: {}", op.func, panic_msg(&p))),
                }
            } else {
                sh.note(PH_CALL_LIVE, li as u64, oi as u64, 0);
                awaits += 1;
                check_await(li, oi, op.func, op.arg, &model, &mut digest, false);
                if (oi + li) % 4 == 3 {
                    // the same await in a forked child: it inherited the patched poll function and
                    // must inherit what the patch leads to
                    let (func, arg) = (op.func, op.arg);
                    let seq_before = SEQ[func].load(Ordering::SeqCst);
                    let want = match model[func].last() {
                        Some(site) => (fake_value(func, *site, seq_before), 0u64),
                        None => (original_value(func, arg), 1u64),
                    };
                    let w2 = want.clone();
                    let r = crate::contain::in_fork(move || {
                        let body_before = BODY[func].load(Ordering::SeqCst);
                        let got = await_func(func, arg);
                        let ran = (BODY[func].load(Ordering::SeqCst) - body_before) as u64;
                        (got.as_deref() == Some(w2.0.as_str()) && ran == w2.1) as u64
                    });
                    *probes.entry("awaits_in_a_forked_child".into()).or_insert(0) += 1;
                    match r {
                        Ok(1) => {}
                        Ok(_) => v("await-in-forked-child-differs-from-model", &["C14"], format!("lifetime {li} op {oi}: a forked child awaiting #{func}({arg}) did not get {:?}", want.0)),
                        Err(e) => v("await-in-forked-child-died", &["C14"], format!("lifetime {li} op {oi}: a forked child died awaiting #{func}({arg}) ({})", if e > 0 { format!("signal {e}") } else { format!("status {}", -e) })),
                    }
                }
                if op.threads > 0 {
                    // awaits on other executor threads, one after the other (each is its own await)
                    for _ in 0..op.threads {
                        let m = model.clone();
                        let (func, arg) = (op.func, op.arg);
                        let body_before = BODY[func].load(Ordering::SeqCst);
                        let seq_before = SEQ[func].load(Ordering::SeqCst);
                        let got = std::thread::spawn(move || await_func(func, arg)).join().unwrap_or(None);
                        awaits += 1;
                        let ran = BODY[func].load(Ordering::SeqCst) - body_before;
                        let want = match m[func].last() {
                            Some(site) => (fake_value(func, *site, seq_before), 0),
                            None => (original_value(func, arg), 1),
                        };
                        if got.as_deref() != Some(want.0.as_str()) || ran != want.1 {
                            v("await-on-other-thread-differs-from-model", &["C14"], format!("lifetime {li} op {oi}: await of #{func}({arg}) on another thread gave {:?} (body ran {ran}x), model {:?} (body {}x)", got, want.0, want.1));
                        }
                        *probes.entry("awaits_on_other_threads".into()).or_insert(0) += 1;
                    }
                }
            }
        }
        sh.note(PH_DROP, li as u64, 0, lt.exit_panic as u64);
        // another executor thread awaits every faked function at each OS-call boundary of the
        // restoration: it completes with one of that function's fakes of this lifetime, or runs
        // the original -- never anything else
        let watch: Vec<(usize, Vec<usize>)> = model.iter().enumerate().filter(|(_, m)| !m.is_empty()).map(|(f, m)| (f, m.clone())).collect();
        let dfind: std::rc::Rc<std::cell::RefCell<Vec<String>>> = Default::default();
        let dfind2 = dfind.clone();
        let dobs: std::rc::Rc<std::cell::Cell<u64>> = Default::default();
        let dobs2 = dobs.clone();
        interpose::set_observer(Some(Box::new(move |point| {
            for (func, sites) in &watch {
                let body_before = BODY[*func].load(Ordering::SeqCst);
                let seq_before = SEQ[*func].load(Ordering::SeqCst);
                let got = await_func(*func, 13);
                let ran = BODY[*func].load(Ordering::SeqCst) - body_before;
                dobs2.set(dobs2.get() + 1);
                let mut ok = got.as_deref() == Some(original_value(*func, 13).as_str()) && ran == 1;
                for s in sites {
                    if got.as_deref() == Some(fake_value(*func, *s, seq_before).as_str()) && ran == 0 {
                        ok = true;
                    }
                }
                if !ok {
                    dfind2.borrow_mut().push(format!("at the {point} boundary an await of async function #{func} on another thread gave {:?} (original body ran {ran}x)", got));
                }
            }
        })));
        interpose::arm(true);
        let r = catch_unwind(AssertUnwindSafe(move || {
            let _inj = inj;
            if lt.exit_panic {
                std::panic::panic_any(Injected);
            }
        }));
        interpose::arm(false);
        interpose::set_observer(None);
        awaits += dobs.get();
        if dobs.get() > 0 {
            *probes.entry("awaits_interleaved_with_restoration".into()).or_insert(0) += dobs.get();
        }
        if let Some(f) = dfind.borrow().first() {
            v("await-during-restoration-saw-neither-a-fake-nor-the-original", &["C14", "C02"], format!("lifetime {li} scope exit: {f}"));
        }
        if let Err(p) = r {
            if !p.is::<Injected>() {
                v("drop-panicked", &["C02"], format!("lifetime {li}: {}", panic_msg(&p)));
            }
        }
        // originals are back, for every member of the family
        sh.note(PH_CALL_AFTER, li as u64, 0, lt.exit_panic as u64);
        let empty: Vec<Vec<usize>> = vec![Vec::new(); NF];
        for f in 0..NF {
            awaits += 1;
            check_await(li, 999, f, 3 + f as u32, &empty, &mut digest, true);
        }
        if !viol.borrow().is_empty() {
            break;
        }
    }
    unsafe { libc::alarm(0) };
    sh.note(PH_DONE, 0, 0, 0);
    json!({
        "violations": viol.into_inner(),
        "digest": format!("{:016x}", digest),
        "probes": probes,
        "faults": {},
        "events": awaits + fakes,
        "calls": awaits,
        "installs_ok": fakes,
        "installs_refused": 0,
    })
}
