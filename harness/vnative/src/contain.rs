//! Crash containment: every scenario runs in a forked child; the child reports through a pipe
//! and leaves a progress note in a shared page so that death by signal is an observation.

use serde_json::Value;

pub struct Shared {
    ptr: *mut u64,
}

pub const PH_SETUP: u64 = 0;
pub const PH_INSTALL: u64 = 1;
pub const PH_CALL_LIVE: u64 = 2;
pub const PH_DROP: u64 = 3;
pub const PH_CALL_AFTER: u64 = 4;
pub const PH_OTHER: u64 = 5;
pub const PH_OBSERVER: u64 = 6;
pub const PH_DONE: u64 = 9;

impl Shared {
    pub fn new() -> Shared {
        let p = unsafe { libc::mmap(std::ptr::null_mut(), 4096, libc::PROT_READ | libc::PROT_WRITE, libc::MAP_SHARED | libc::MAP_ANONYMOUS, -1, 0) };
        assert!(p != libc::MAP_FAILED);
        Shared { ptr: p as *mut u64 }
    }
    pub fn set(&self, i: usize, v: u64) {
        unsafe { std::ptr::write_volatile(self.ptr.add(i), v) };
    }
    pub fn get(&self, i: usize) -> u64 {
        unsafe { std::ptr::read_volatile(self.ptr.add(i)) }
    }
    /// progress note: phase, lifetime, op, free-form
    pub fn note(&self, phase: u64, lifetime: u64, op: u64, extra: u64) {
        self.set(0, phase);
        self.set(1, lifetime);
        self.set(2, op);
        self.set(3, extra);
    }
    pub fn clear(&self) {
        for i in 0..16 {
            self.set(i, 0);
        }
    }
}

pub enum ChildEnd {
    Report(Value),
    Signal(i32),
    Exit(i32),
    NoReport,
}

pub fn signal_name(s: i32) -> &'static str {
    match s {
        libc::SIGSEGV => "SIGSEGV",
        libc::SIGILL => "SIGILL",
        libc::SIGABRT => "SIGABRT",
        libc::SIGBUS => "SIGBUS",
        libc::SIGTRAP => "SIGTRAP",
        libc::SIGFPE => "SIGFPE",
        libc::SIGALRM => "SIGALRM(hang)",
        libc::SIGKILL => "SIGKILL",
        _ => "SIG?",
    }
}

static REPORT_FD: std::sync::atomic::AtomicI32 = std::sync::atomic::AtomicI32::new(-1);

/// From any thread of the child: hand `v` back as the scenario's report and end the child now
/// (used when the scenario's own thread can never return, e.g. it blocks forever by design).
pub fn report_and_exit(v: &Value) -> ! {
    let fd = REPORT_FD.load(std::sync::atomic::Ordering::SeqCst);
    let s = serde_json::to_vec(v).unwrap_or_default();
    let mut off = 0;
    while fd >= 0 && off < s.len() {
        let n = unsafe { libc::write(fd, s[off..].as_ptr() as *const libc::c_void, s.len() - off) };
        if n <= 0 {
            break;
        }
        off += n as usize;
    }
    unsafe {
        libc::close(fd);
        libc::_exit(0)
    }
}

/// Run `f` in a child forked from the calling (scenario) process, which inherits every patch and
/// every mapping as they are now.  Ok(value), or Err(signal) / Err(-exit code) if the child died.
pub fn in_fork(f: impl FnOnce() -> u64) -> Result<u64, i32> {
    let mut fds = [0i32; 2];
    unsafe {
        if libc::pipe(fds.as_mut_ptr()) != 0 {
            return Err(-1001);
        }
        let pid = libc::fork();
        if pid < 0 {
            return Err(-1002);
        }
        if pid == 0 {
            libc::close(fds[0]);
            libc::alarm(20);
            let r = std::panic::catch_unwind(std::panic::AssertUnwindSafe(f));
            match r {
                Ok(v) => {
                    let b = v.to_le_bytes();
                    libc::write(fds[1], b.as_ptr() as *const libc::c_void, 8);
                    libc::_exit(0)
                }
                Err(_) => libc::_exit(3),
            }
        }
        libc::close(fds[1]);
        let mut b = [0u8; 8];
        let mut got = 0usize;
        while got < 8 {
            let n = libc::read(fds[0], b[got..].as_mut_ptr() as *mut libc::c_void, 8 - got);
            if n <= 0 {
                break;
            }
            got += n as usize;
        }
        libc::close(fds[0]);
        let mut status = 0i32;
        libc::waitpid(pid, &mut status, 0);
        if libc::WIFSIGNALED(status) {
            return Err(libc::WTERMSIG(status));
        }
        let code = libc::WEXITSTATUS(status);
        if code != 0 {
            return Err(-code);
        }
        if got < 8 {
            return Err(-1003);
        }
        Ok(u64::from_le_bytes(b))
    }
}

/// Run `body` in a forked child; it returns the JSON report.
pub fn run_contained(timeout_s: u32, body: impl FnOnce() -> Value) -> ChildEnd {
    let mut fds = [0i32; 2];
    unsafe {
        assert_eq!(libc::pipe(fds.as_mut_ptr()), 0);
    }
    let pid = unsafe { libc::fork() };
    assert!(pid >= 0, "fork failed");
    if pid == 0 {
        unsafe {
            libc::close(fds[0]);
            libc::alarm(timeout_s);
        }
        REPORT_FD.store(fds[1], std::sync::atomic::Ordering::SeqCst);
        // a panic that no scenario step expected (it escaped every catch of the scenario body) is an
        // observation about the tree under test, not a harness failure
        let v = match std::panic::catch_unwind(std::panic::AssertUnwindSafe(body)) {
            Ok(v) => v,
            Err(p) => {
                let msg = if let Some(s) = p.downcast_ref::<String>() {
                    s.clone()
                } else if let Some(s) = p.downcast_ref::<&str>() {
                    s.to_string()
                } else {
                    "<non-string payload>".to_string()
                };
                serde_json::json!({"escaped_panic": msg})
            }
        };
        let s = serde_json::to_vec(&v).unwrap();
        let mut off = 0;
        while off < s.len() {
            let n = unsafe { libc::write(fds[1], s[off..].as_ptr() as *const libc::c_void, s.len() - off) };
            if n <= 0 {
                break;
            }
            off += n as usize;
        }
        unsafe {
            libc::close(fds[1]);
            libc::_exit(0);
        }
    }
    unsafe { libc::close(fds[1]) };
    let mut buf = Vec::new();
    let mut tmp = [0u8; 65536];
    loop {
        let n = unsafe { libc::read(fds[0], tmp.as_mut_ptr() as *mut libc::c_void, tmp.len()) };
        if n <= 0 {
            break;
        }
        buf.extend_from_slice(&tmp[..n as usize]);
    }
    unsafe { libc::close(fds[0]) };
    let mut status = 0i32;
    unsafe { libc::waitpid(pid, &mut status, 0) };
    if libc::WIFSIGNALED(status) {
        return ChildEnd::Signal(libc::WTERMSIG(status));
    }
    let code = libc::WEXITSTATUS(status);
    if code != 0 {
        return ChildEnd::Exit(code);
    }
    match serde_json::from_slice::<Value>(&buf) {
        Ok(v) => ChildEnd::Report(v),
        // the child ran to its end and wrote something that is not a report: its memory was damaged
        // while the scenario ran (handled like a report with damaged fields)
        Err(_) if buf.len() > 2 => ChildEnd::Report(Value::String("damaged".into())),
        Err(_) => ChildEnd::NoReport,
    }
}

/// Re-exec with ASLR disabled so that addresses are a function of the scenario only.
pub fn ensure_no_aslr() {
    const ADDR_NO_RANDOMIZE: libc::c_ulong = 0x0040000;
    unsafe {
        let cur = libc::personality(0xffff_ffff);
        if cur >= 0 && (cur as libc::c_ulong) & ADDR_NO_RANDOMIZE == 0 {
            if libc::personality(cur as libc::c_ulong | ADDR_NO_RANDOMIZE) < 0 {
                return;
            }
            let exe = std::ffi::CString::new("/proc/self/exe").unwrap();
            let args: Vec<std::ffi::CString> = std::env::args().map(|a| std::ffi::CString::new(a).unwrap()).collect();
            let mut ptrs: Vec<*const libc::c_char> = args.iter().map(|a| a.as_ptr()).collect();
            ptrs.push(std::ptr::null());
            libc::execv(exe.as_ptr(), ptrs.as_ptr());
        }
    }
}
