//! Engine N, family "sigs" (C09): a family of function types differing in arity, one parameter
//! type, return type, reference mutability, unsafety and ABI; every ordered pair (target type,
//! replacement type) is paired at run time through each macro form, plus null pointers,
//! checked/unchecked mixes and async values of the wrong output type.

use crate::contain::*;
use crate::interpose;
use injectorpp::interface::injector::*;
use serde::{Deserialize, Serialize};
use serde_json::{json, Value};
use simos::rng::Rng;
use std::hint::black_box;
use std::panic::{catch_unwind, AssertUnwindSafe};

/// One member of the family: a target and a replacement of exactly this type, FuncPtr makers per
/// macro form, and a structural description used by the oracle.
pub struct Ty {
    pub desc: &'static str,
    /// members with the same `lifetime_class` (>0) differ only in lifetime spelling: not judged
    pub lifetime_class: u32,
    pub target_addr: fn() -> usize,
    pub target_forms: &'static [fn() -> FuncPtr],
    pub fake_forms: &'static [fn() -> FuncPtr],
}

macro_rules! tf {
    ($t:ident, $f:ident, ($($a:ident: $at:ty),*), $ret:ty, $tv:expr, $fv:expr) => {
        #[inline(never)]
        fn $t($($a: $at),*) -> $ret { $(let _ = black_box(&$a);)* black_box($tv) }
        #[inline(never)]
        fn $f($($a: $at),*) -> $ret { $(let _ = black_box(&$a);)* black_box($fv) }
    };
}

tf!(t00, f00, (), (), (), ());
tf!(t01, f01, (), u32, 1, 2);
tf!(t02, f02, (), i32, 1, 2);
tf!(t03, f03, (), u64, 1, 2);
tf!(t04, f04, (), bool, false, true);
tf!(t05, f05, (a: u32), u32, 1, 2);
tf!(t06, f06, (a: i32), u32, 1, 2);
tf!(t07, f07, (a: u32, b: u32), u32, 1, 2);
tf!(t08, f08, (a: u32, b: u32), (), (), ());
tf!(t09, f09, (a: &u32), u32, 1, 2);
tf!(t10, f10, (a: &mut u32), u32, 1, 2);
tf!(t11, f11, (a: *const u32), u32, 1, 2);
tf!(t12, f12, (a: *mut u32), u32, 1, 2);
#[inline(never)]
unsafe fn t13(a: u32) -> u32 {
    black_box(a) + 1
}
#[inline(never)]
unsafe fn f13(a: u32) -> u32 {
    black_box(a) + 2
}
#[inline(never)]
extern "C" fn t14(a: u32) -> u32 {
    black_box(a) + 1
}
#[inline(never)]
extern "C" fn f14(a: u32) -> u32 {
    black_box(a) + 2
}
#[inline(never)]
unsafe extern "C" fn t15(a: u32) -> u32 {
    black_box(a) + 1
}
#[inline(never)]
unsafe extern "C" fn f15(a: u32) -> u32 {
    black_box(a) + 2
}
#[inline(never)]
unsafe extern "system" fn t16(a: u32) -> u32 {
    black_box(a) + 1
}
#[inline(never)]
unsafe extern "system" fn f16(a: u32) -> u32 {
    black_box(a) + 2
}
tf!(t17, f17, (a: &str), u32, 1, 2);
tf!(t18, f18, (a: &'static str), u32, 1, 2);
tf!(t19, f19, (a: String), u32, 1, 2);
tf!(t20, f20, (a: u32), String, "t".to_string(), "f".to_string());
tf!(t21, f21, (a: u32), Option<u32>, Some(1), Some(2));
tf!(t22, f22, (a: u32), Result<u32, String>, Ok(1), Ok(2));
tf!(t23, f23, (a: f64), f64, 1.0, 2.0);
tf!(t24, f24, (a: f32), f64, 1.0, 2.0);
tf!(t25, f25, (a: u32, b: u64, c: u8), u32, 1, 2);
tf!(t26, f26, (a: u32, b: u64, c: u16), u32, 1, 2);
tf!(t27, f27, (a: (u32, u32)), u32, 1, 2);
tf!(t28, f28, (a: [u32; 2]), u32, 1, 2);
tf!(t29, f29, (a: u8), u8, 1, 2);
tf!(t30, f30, (a: u32, b: u32, c: u32), u32, 1, 2);
pub mod ma {
    #[derive(Debug)]
    pub struct Cfg(pub u32);
}
pub mod mb {
    #[derive(Debug)]
    pub struct Cfg(pub u32);
}
tf!(t31, f31, (a: ma::Cfg), u32, 1, 2);
tf!(t32, f32, (a: mb::Cfg), u32, 1, 2);
tf!(t33, f33, (a: u32), Result<u32, std::fmt::Error>, Ok(1), Ok(2));
tf!(t34, f34, (a: u32), Result<u32, std::io::Error>, Ok(1), Ok(2));

// Generic helpers: ONE macro call site each, evaluated for several type arguments (a `static`
// inside a generic function is shared by all its instantiations, so anything a macro memoises per
// call site would leak from one instantiation to the next).
#[inline(never)]
fn gid<T: Default + 'static>(a: T) -> T {
    let _ = black_box(&a);
    black_box(T::default())
}
#[inline(never)]
fn gfk<T: Default + 'static>(a: T) -> T {
    let _ = black_box(&a);
    black_box(T::default())
}
fn g_target<T: Default + 'static>() -> FuncPtr {
    func!(gid::<T>, fn(T) -> T)
}
fn g_fake<T: Default + 'static>() -> FuncPtr {
    func!(gfk::<T>, fn(T) -> T)
}
fn g_fake_closure<T: Default + 'static>() -> FuncPtr {
    closure!(|_a| T::default(), fn(T) -> T)
}

macro_rules! ty {
    ($desc:expr, $lc:expr, $t:ident as $fty:ty, [$($tform:expr),*], [$($fform:expr),*]) => {
        Ty {
            desc: $desc,
            lifetime_class: $lc,
            target_addr: || $t as $fty as usize,
            target_forms: &[$(|| $tform),*],
            fake_forms: &[$(|| $fform),*],
        }
    };
}

use injectorpp::{closure, fake, func};

pub fn family() -> Vec<Ty> {
    vec![
        ty!("safe|Rust|()|()", 0, t00 as fn(), [func!(t00, fn()), func!(fn (t00)()), func!(func_info: fn (t00)())], [func!(f00, fn()), closure!(|| {}, fn()), fake!(func_type: fn() -> ()).0]),
        ty!("safe|Rust|()|u32", 0, t01 as fn() -> u32, [func!(t01, fn() -> u32), func!(fn (t01)() -> u32), func!(func_info: fn (t01)() -> u32)], [func!(f01, fn() -> u32), closure!(|| 2, fn() -> u32), fake!(func_type: fn() -> u32, returns: 2).0]),
        ty!("safe|Rust|()|i32", 0, t02 as fn() -> i32, [func!(t02, fn() -> i32), func!(fn (t02)() -> i32)], [func!(f02, fn() -> i32), closure!(|| 2, fn() -> i32), fake!(func_type: fn() -> i32, returns: 2).0]),
        ty!("safe|Rust|()|u64", 0, t03 as fn() -> u64, [func!(t03, fn() -> u64)], [func!(f03, fn() -> u64), closure!(|| 2, fn() -> u64)]),
        ty!("safe|Rust|()|bool", 0, t04 as fn() -> bool, [func!(t04, fn() -> bool), func!(fn (t04)() -> bool)], [func!(f04, fn() -> bool), fake!(func_type: fn() -> bool, returns: true).0]),
        ty!("safe|Rust|(u32)|u32", 0, t05 as fn(u32) -> u32, [func!(t05, fn(u32) -> u32), func!(fn (t05)(u32) -> u32), func!(func_info: fn (t05)(u32) -> u32)], [func!(f05, fn(u32) -> u32), closure!(|_a| 2, fn(u32) -> u32), fake!(func_type: fn(_a: u32) -> u32, returns: 2).0, fake!(func_type: fn(a: u32) -> u32, when: a > 0, returns: 2).0]),
        ty!("safe|Rust|(i32)|u32", 0, t06 as fn(i32) -> u32, [func!(t06, fn(i32) -> u32), func!(fn (t06)(i32) -> u32)], [func!(f06, fn(i32) -> u32), closure!(|_a| 2, fn(i32) -> u32)]),
        ty!("safe|Rust|(u32,u32)|u32", 0, t07 as fn(u32, u32) -> u32, [func!(t07, fn(u32, u32) -> u32), func!(fn (t07)(u32, u32) -> u32)], [func!(f07, fn(u32, u32) -> u32), fake!(func_type: fn(_a: u32, _b: u32) -> u32, returns: 2).0]),
        ty!("safe|Rust|(u32,u32)|()", 0, t08 as fn(u32, u32), [func!(t08, fn(u32, u32)), func!(fn (t08)(u32, u32))], [func!(f08, fn(u32, u32)), fake!(func_type: fn(_a: u32, _b: u32) -> ()).0]),
        ty!("safe|Rust|(&u32)|u32", 0, t09 as fn(&u32) -> u32, [func!(t09, fn(&u32) -> u32), func!(fn (t09)(&u32) -> u32)], [func!(f09, fn(&u32) -> u32), fake!(func_type: fn(_a: &u32) -> u32, returns: 2).0]),
        ty!("safe|Rust|(&mut u32)|u32", 0, t10 as fn(&mut u32) -> u32, [func!(t10, fn(&mut u32) -> u32), func!(fn (t10)(&mut u32) -> u32)], [func!(f10, fn(&mut u32) -> u32), fake!(func_type: fn(a: &mut u32) -> u32, assign: { *a = 5 }, returns: 2).0]),
        ty!("safe|Rust|(*const u32)|u32", 0, t11 as fn(*const u32) -> u32, [func!(t11, fn(*const u32) -> u32)], [func!(f11, fn(*const u32) -> u32)]),
        ty!("safe|Rust|(*mut u32)|u32", 0, t12 as fn(*mut u32) -> u32, [func!(t12, fn(*mut u32) -> u32)], [func!(f12, fn(*mut u32) -> u32)]),
        ty!("unsafe|Rust|(u32)|u32", 0, t13 as unsafe fn(u32) -> u32, [func!(t13, unsafe fn(u32) -> u32), func!(unsafe{} fn (t13)(u32) -> u32), func!(func_info: unsafe fn (t13)(u32) -> u32)], [func!(f13, unsafe fn(u32) -> u32), fake!(func_type: unsafe fn(_a: u32) -> u32, returns: 2).0]),
        ty!("safe|C|(u32)|u32", 0, t14 as extern "C" fn(u32) -> u32, [func!(t14, extern "C" fn(u32) -> u32)], [func!(f14, extern "C" fn(u32) -> u32)]),
        ty!("unsafe|C|(u32)|u32", 0, t15 as unsafe extern "C" fn(u32) -> u32, [func!(t15, unsafe extern "C" fn(u32) -> u32), func!(unsafe{} extern "C" fn (t15)(u32) -> u32), func!(func_info: unsafe extern "C" fn (t15)(u32) -> u32)], [func!(f15, unsafe extern "C" fn(u32) -> u32), fake!(func_type: unsafe extern "C" fn(_a: u32) -> u32, returns: 2).0]),
        ty!("unsafe|system|(u32)|u32", 0, t16 as unsafe extern "system" fn(u32) -> u32, [func!(t16, unsafe extern "system" fn(u32) -> u32), func!(unsafe{} extern "system" fn (t16)(u32) -> u32)], [func!(f16, unsafe extern "system" fn(u32) -> u32)]),
        ty!("safe|Rust|(&str)|u32", 1, t17 as fn(&str) -> u32, [func!(t17, fn(&str) -> u32), func!(fn (t17)(&str) -> u32)], [func!(f17, fn(&str) -> u32), fake!(func_type: fn(_a: &str) -> u32, returns: 2).0]),
        ty!("safe|Rust|(&'static str)|u32", 1, t18 as fn(&'static str) -> u32, [func!(t18, fn(&'static str) -> u32)], [func!(f18, fn(&'static str) -> u32)]),
        ty!("safe|Rust|(String)|u32", 0, t19 as fn(String) -> u32, [func!(t19, fn(String) -> u32)], [func!(f19, fn(String) -> u32), closure!(|_a| 2, fn(String) -> u32)]),
        ty!("safe|Rust|(u32)|String", 0, t20 as fn(u32) -> String, [func!(t20, fn(u32) -> String), func!(fn (t20)(u32) -> String)], [func!(f20, fn(u32) -> String), fake!(func_type: fn(_a: u32) -> String, returns: "f".to_string()).0]),
        ty!("safe|Rust|(u32)|Option<u32>", 0, t21 as fn(u32) -> Option<u32>, [func!(t21, fn(u32) -> Option<u32>)], [func!(f21, fn(u32) -> Option<u32>)]),
        ty!("safe|Rust|(u32)|Result<u32,String>", 0, t22 as fn(u32) -> Result<u32, String>, [func!(t22, fn(u32) -> Result<u32, String>)], [func!(f22, fn(u32) -> Result<u32, String>)]),
        ty!("safe|Rust|(f64)|f64", 0, t23 as fn(f64) -> f64, [func!(t23, fn(f64) -> f64)], [func!(f23, fn(f64) -> f64), closure!(|_a| 2.0, fn(f64) -> f64)]),
        ty!("safe|Rust|(f32)|f64", 0, t24 as fn(f32) -> f64, [func!(t24, fn(f32) -> f64)], [func!(f24, fn(f32) -> f64)]),
        ty!("safe|Rust|(u32,u64,u8)|u32", 0, t25 as fn(u32, u64, u8) -> u32, [func!(t25, fn(u32, u64, u8) -> u32)], [func!(f25, fn(u32, u64, u8) -> u32)]),
        ty!("safe|Rust|(u32,u64,u16)|u32", 0, t26 as fn(u32, u64, u16) -> u32, [func!(t26, fn(u32, u64, u16) -> u32)], [func!(f26, fn(u32, u64, u16) -> u32)]),
        ty!("safe|Rust|((u32,u32))|u32", 0, t27 as fn((u32, u32)) -> u32, [func!(t27, fn((u32, u32)) -> u32)], [func!(f27, fn((u32, u32)) -> u32)]),
        ty!("safe|Rust|([u32;2])|u32", 0, t28 as fn([u32; 2]) -> u32, [func!(t28, fn([u32; 2]) -> u32)], [func!(f28, fn([u32; 2]) -> u32)]),
        ty!("safe|Rust|(u8)|u8", 0, t29 as fn(u8) -> u8, [func!(t29, fn(u8) -> u8)], [func!(f29, fn(u8) -> u8), closure!(|_a| 2, fn(u8) -> u8)]),
        ty!("safe|Rust|(u32,u32,u32)|u32", 0, t30 as fn(u32, u32, u32) -> u32, [func!(t30, fn(u32, u32, u32) -> u32)], [func!(f30, fn(u32, u32, u32) -> u32)]),
        ty!("safe|Rust|(ma::Cfg)|u32", 0, t31 as fn(ma::Cfg) -> u32, [func!(t31, fn(ma::Cfg) -> u32)], [func!(f31, fn(ma::Cfg) -> u32), closure!(|_a| 2, fn(ma::Cfg) -> u32)]),
        ty!("safe|Rust|(mb::Cfg)|u32", 0, t32 as fn(mb::Cfg) -> u32, [func!(t32, fn(mb::Cfg) -> u32)], [func!(f32, fn(mb::Cfg) -> u32), closure!(|_a| 2, fn(mb::Cfg) -> u32)]),
        ty!("safe|Rust|(u32)|Result<u32,fmt::Error>", 0, t33 as fn(u32) -> Result<u32, std::fmt::Error>, [func!(t33, fn(u32) -> Result<u32, std::fmt::Error>)], [func!(f33, fn(u32) -> Result<u32, std::fmt::Error>)]),
        ty!("safe|Rust|(u32)|Result<u32,io::Error>", 0, t34 as fn(u32) -> Result<u32, std::io::Error>, [func!(t34, fn(u32) -> Result<u32, std::io::Error>)], [func!(f34, fn(u32) -> Result<u32, std::io::Error>)]),
        Ty { desc: "generic call site|(u16)|u16", lifetime_class: 0, target_addr: || gid::<u16> as fn(u16) -> u16 as usize, target_forms: &[|| g_target::<u16>()], fake_forms: &[|| g_fake::<u16>(), || g_fake_closure::<u16>()] },
        Ty { desc: "generic call site|(i64)|i64", lifetime_class: 0, target_addr: || gid::<i64> as fn(i64) -> i64 as usize, target_forms: &[|| g_target::<i64>()], fake_forms: &[|| g_fake::<i64>(), || g_fake_closure::<i64>()] },
        Ty { desc: "generic call site|(i8)|i8", lifetime_class: 0, target_addr: || gid::<i8> as fn(i8) -> i8 as usize, target_forms: &[|| g_target::<i8>()], fake_forms: &[|| g_fake::<i8>(), || g_fake_closure::<i8>()] },
    ]
}

async fn as_u32(x: u32) -> u32 {
    x
}
async fn as_string(x: u32) -> String {
    x.to_string()
}

#[derive(Serialize, Deserialize, Clone, Debug, PartialEq)]
pub struct Pair {
    /// pair | null_fake | null_target | checked_target_unchecked_fake | unchecked_target_checked_fake | async_wrong | async_right
    pub kind: String,
    pub t: usize,
    pub tform: usize,
    pub f: usize,
    pub fform: usize,
}

#[derive(Serialize, Deserialize, Clone, Debug, PartialEq)]
pub struct SigScenario {
    pub engine: String,
    pub family: String,
    pub profile: String,
    pub variant: String,
    pub seed: u64,
    pub index: u64,
    /// pairs grouped into injector lifetimes (seeded order and grouping)
    pub lifetimes: Vec<Vec<Pair>>,
    /// every lifetime runs inside a destructor while another panic is unwinding the thread
    /// (a fixture that installs its fakes from `Drop`)
    #[serde(default)]
    pub unwinding: bool,
    pub classes: Vec<String>,
}

pub const BLOCK: usize = 24;

/// Scenario `index` covers pairs [index*BLOCK, (index+1)*BLOCK) of the full ordered-pair list
/// (wrapping), in a seeded order and grouping; `n*n/BLOCK` scenarios enumerate every ordered pair.
pub fn generate(profile: &str, seed: u64, index: u64) -> SigScenario {
    let mut rng = Rng::new(simos::rng::scenario_seed(seed, &format!("N/sigs/{profile}"), index));
    let fam = family();
    let n = fam.len();
    let total = n * n;
    let mut pairs: Vec<Pair> = Vec::new();
    for k in 0..BLOCK {
        let p = (index as usize * BLOCK + k) % total;
        let (t, f) = (p / n, p % n);
        let tform = rng.below(fam[t].target_forms.len() as u64) as usize;
        let fform = rng.below(fam[f].fake_forms.len() as u64) as usize;
        pairs.push(Pair { kind: "pair".into(), t, tform, f, fform });
    }
    // the other refusal kinds
    for _ in 0..4 {
        let t = rng.below(n as u64) as usize;
        let kind = *rng.pick(&["null_fake", "null_target", "checked_target_unchecked_fake", "unchecked_target_checked_fake", "async_wrong", "async_right"]);
        pairs.push(Pair { kind: kind.into(), t, tform: 0, f: t, fform: 0 });
    }
    for i in (1..pairs.len()).rev() {
        let j = rng.below(i as u64 + 1) as usize;
        pairs.swap(i, j);
    }
    let mut lifetimes: Vec<Vec<Pair>> = Vec::new();
    let mut cur: Vec<Pair> = Vec::new();
    for p in pairs {
        cur.push(p);
        if rng.chance(1, 4) {
            lifetimes.push(std::mem::take(&mut cur));
        }
    }
    if !cur.is_empty() {
        lifetimes.push(cur);
    }
    // every second sweep over the blocks is made while the thread is unwinding
    let nblocks = (total + BLOCK - 1) / BLOCK;
    let unwinding = (index as usize / nblocks) % 2 == 1;
    let classes = vec![format!("block{}{}", index as usize % nblocks, if unwinding { "-while-unwinding" } else { "" })];
    SigScenario { engine: "N".into(), family: "sigs".into(), profile: profile.into(), variant: "x86_64-linux-native".into(), seed, index, lifetimes, unwinding, classes }
}

fn panic_msg(p: &Box<dyn std::any::Any + Send>) -> String {
    if let Some(s) = p.downcast_ref::<String>() {
        s.clone()
    } else if let Some(s) = p.downcast_ref::<&str>() {
        s.to_string()
    } else {
        "<non-string payload>".into()
    }
}

pub fn execute(sc: &SigScenario, sh: &Shared) -> Value {
    let viol: std::cell::RefCell<Vec<Value>> = std::cell::RefCell::new(Vec::new());
    let v = |tag: &str, props: &[&str], detail: String| {
        let mut viol = viol.borrow_mut();
        if viol.len() < 16 && !viol.iter().any(|x| x["tag"] == tag) {
            viol.push(json!({"tag": tag, "props": props, "detail": detail}));
        }
    };
    let fam = family();
    let mut digest = 0x51u64;
    let mut accepted = 0u64;
    let mut refused = 0u64;
    let mut not_judged = 0u64;
    let mut faults: std::collections::BTreeMap<String, u64> = Default::default();
    struct InDrop<F: FnMut()>(Option<F>);
    impl<F: FnMut()> Drop for InDrop<F> {
        fn drop(&mut self) {
            if let Some(mut f) = self.0.take() {
                f()
            }
        }
    }
    struct Outer;
    let mut in_unwind = 0u64;
    for (li, lt) in sc.lifetimes.iter().enumerate() {
      let mut body = || {
        let mut inj = InjectorPP::new();
        let mut faked_here: Vec<usize> = Vec::new();
        // (address, original entry bytes) of every target accepted so far in this lifetime
        let mut live: Vec<(usize, Vec<u8>)> = Vec::new();
        for (pi, p) in lt.iter().enumerate() {
            sh.note(PH_INSTALL, li as u64, pi as u64, 0);
            if p.t >= fam.len() || p.f >= fam.len() {
                continue;
            }
            let (tt, ft) = (&fam[p.t], &fam[p.f]);
            let taddr = (tt.target_addr)();
            let before: Vec<u8> = unsafe { std::slice::from_raw_parts(taddr as *const u8, 16).to_vec() };
            let mark = interpose::ledger_len();
            interpose::arm(true);
            let r = catch_unwind(AssertUnwindSafe(|| unsafe {
                match p.kind.as_str() {
                    "pair" => {
                        let t = (tt.target_forms[p.tform % tt.target_forms.len()])();
                        let f = (ft.fake_forms[p.fform % ft.fake_forms.len()])();
                        inj.when_called(t).will_execute_raw(f)
                    }
                    "null_fake" => {
                        let t = (tt.target_forms[0])();
                        inj.when_called(t).will_execute_raw(FuncPtr::new(std::ptr::null(), "fn()"))
                    }
                    "null_target" => inj.when_called(FuncPtr::new(std::ptr::null(), "fn()")).will_execute_raw((ft.fake_forms[0])()),
                    "checked_target_unchecked_fake" => {
                        let t = (tt.target_forms[0])();
                        inj.when_called(t).will_execute_raw(FuncPtr::new((ft.target_addr)() as *const (), ""))
                    }
                    "unchecked_target_checked_fake" => inj.when_called_unchecked(FuncPtr::new(taddr as *const (), "")).will_execute_raw((ft.fake_forms[0])()),
                    "async_wrong" => inj.when_called_async(injectorpp::async_func!(as_u32(0), u32)).will_return_async(injectorpp::async_return!("x".to_string(), String)),
                    "async_right" => inj.when_called_async(injectorpp::async_func!(as_string(0), String)).will_return_async(injectorpp::async_return!("x".to_string(), String)),
                    k => panic!("harness: unknown pair kind {k}"),
                }
            }));
            interpose::arm(false);
            let ledger = interpose::ledger_since(mark);
            let after: Vec<u8> = unsafe { std::slice::from_raw_parts(taddr as *const u8, 16).to_vec() };
            let what = format!("lifetime {li} item {pi}: {} target `{}` (form {}) with replacement `{}` (form {})", p.kind, tt.desc, p.tform, ft.desc, p.fform);
            let expect_accept: Option<bool> = match p.kind.as_str() {
                "pair" => {
                    if p.t == p.f {
                        Some(true)
                    } else if tt.lifetime_class != 0 && tt.lifetime_class == ft.lifetime_class {
                        None // differs only in lifetime spelling: exercised, not judged
                    } else {
                        Some(false)
                    }
                }
                "async_right" => Some(true),
                _ => Some(false),
            };
            digest = digest.rotate_left(3) ^ (r.is_ok() as u64) ^ ((p.t * 64 + p.f) as u64);
            // whatever this request's outcome: fakes accepted earlier through this injector stay
            for (a, orig) in &live {
                let cur: Vec<u8> = unsafe { std::slice::from_raw_parts(*a as *const u8, 16).to_vec() };
                if &cur == orig {
                    v("earlier-accepted-fake-lost-after-a-later-request", &["C09", "C02"], format!("{what}: the function at {a:#x}, faked earlier through the same living injector, has its original entry bytes again"));
                }
            }
            if r.is_ok() && p.kind == "pair" && !live.iter().any(|(a, _)| *a == taddr) {
                live.push((taddr, before.clone()));
            }
            match (&r, expect_accept) {
                (_, None) => not_judged += 1,
                (Ok(()), Some(true)) => {
                    accepted += 1;
                    if p.kind == "pair" {
                        if after == before && !faked_here.contains(&p.t) {
                            v("accepted-pair-did-not-redirect", &["C09", "C01"], format!("{what}: accepted but the target's entry bytes did not change"));
                        }
                        faked_here.push(p.t);
                    }
                }
                (Ok(()), Some(false)) => {
                    v("structurally-different-signature-accepted", &["C09"], format!("{what}: the installation was accepted"));
                }
                (Err(e), Some(true)) => {
                    v("identical-signature-refused", &["C09"], format!("{what}: refused with {:?}", panic_msg(e)));
                }
                (Err(e), Some(false)) => {
                    refused += 1;
                    *faults.entry(format!("refused_{}", p.kind)).or_insert(0) += 1;
                    let msg = panic_msg(e);
                    let want_null = p.kind.starts_with("null");
                    let ok_msg = if want_null { msg.contains("Pointer must not be null") } else { msg.contains("Signature mismatch") };
                    if !ok_msg {
                        v("refusal-with-wrong-message", &["C09"], format!("{what}: panic message {msg:?}"));
                    }
                    if !ledger.is_empty() {
                        v("refusal-after-os-event", &["C09"], format!("{what}: refused only after OS events {:?}", &ledger[..ledger.len().min(3)]));
                    }
                    if after != before {
                        v("refusal-modified-target", &["C09"], format!("{what}: the target's entry bytes changed"));
                    }
                }
            }
        }
        sh.note(PH_DROP, li as u64, 0, 0);
        drop(inj);
        for t in faked_here {
            let _ = t;
        }
      };
        if sc.unwinding {
            in_unwind += 1;
            let r = catch_unwind(AssertUnwindSafe(|| {
                let _g = InDrop(Some(&mut body));
                std::panic::panic_any(Outer);
            }));
            match r {
                Err(p) if p.is::<Outer>() => {}
                Err(p) => v("unexpected-panic-escaped-the-fixture", &["C09"], format!("lifetime {li}: {}", panic_msg(&p))),
                Ok(()) => {}
            }
        } else {
            body();
        }
        if !viol.borrow().is_empty() {
            break;
        }
    }
    sh.note(PH_DONE, 0, 0, 0);
    json!({
        "violations": viol.into_inner(),
        "digest": format!("{:016x}", digest),
        "probes": {"pairs_not_judged_lifetime_only": not_judged, "pairs_accepted": accepted, "lifetimes_run_while_unwinding": in_unwind},
        "faults": faults,
        "events": accepted + refused + not_judged,
        "calls": 0,
        "installs_ok": accepted,
        "installs_refused": refused,
    })
}
