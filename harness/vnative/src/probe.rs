//! Engine N, family "probe": assembly caller/fake pair observing the register file around a
//! redirected call (C13), and the forced-boolean stub under the same probe plus the accept/refuse
//! gate over a family of signatures (C10).

use crate::arena;
use crate::contain::*;
use crate::interpose::{self, NEv};
use injectorpp::interface::injector::*;
use serde::{Deserialize, Serialize};
use serde_json::{json, Value};
use simos::rng::Rng;
use std::hint::black_box;
use std::panic::{catch_unwind, AssertUnwindSafe};

// in: [0..6) rdi rsi rdx rcx r8 r9 | [6..12) rbx rbp r12 r13 r14 r15 | [12..20) stack args | [20..28) xmm0-7 (low 64) | [28] rax
// out: [0] rax [1] rdx [2] xmm0 [3] xmm1 | [4..10) rbx rbp r12 r13 r14 r15 | [10] rsp after | [11..19) stack slots after | [19] rsp before
std::arch::global_asm!(
    ".text",
    ".global vn_probe_call",
    "vn_probe_call:",
    "push rbx",
    "push rbp",
    "push r12",
    "push r13",
    "push r14",
    "push r15",
    "sub rsp, 88",
    "mov [rsp+64], rdi",
    "mov [rsp+72], rsi",
    "mov [rsp+80], rdx",
    "mov r10, rsi",
    "mov r11, [r10+96]",
    "mov [rsp+0], r11",
    "mov r11, [r10+104]",
    "mov [rsp+8], r11",
    "mov r11, [r10+112]",
    "mov [rsp+16], r11",
    "mov r11, [r10+120]",
    "mov [rsp+24], r11",
    "mov r11, [r10+128]",
    "mov [rsp+32], r11",
    "mov r11, [r10+136]",
    "mov [rsp+40], r11",
    "mov r11, [r10+144]",
    "mov [rsp+48], r11",
    "mov r11, [r10+152]",
    "mov [rsp+56], r11",
    "movq xmm0, [r10+160]",
    "movq xmm1, [r10+168]",
    "movq xmm2, [r10+176]",
    "movq xmm3, [r10+184]",
    "movq xmm4, [r10+192]",
    "movq xmm5, [r10+200]",
    "movq xmm6, [r10+208]",
    "movq xmm7, [r10+216]",
    "mov rbx, [r10+48]",
    "mov rbp, [r10+56]",
    "mov r12, [r10+64]",
    "mov r13, [r10+72]",
    "mov r14, [r10+80]",
    "mov r15, [r10+88]",
    "mov rdi, [r10+0]",
    "mov rsi, [r10+8]",
    "mov rdx, [r10+16]",
    "mov rcx, [r10+24]",
    "mov r8, [r10+32]",
    "mov r9, [r10+40]",
    "mov rax, [rsp+80]",
    "mov [rax+152], rsp",
    "mov r11, [rsp+64]",
    "mov rax, [r10+224]",
    "call r11",
    "mov r11, [rsp+80]",
    "mov [r11+0], rax",
    "mov [r11+8], rdx",
    "movq [r11+16], xmm0",
    "movq [r11+24], xmm1",
    "mov [r11+32], rbx",
    "mov [r11+40], rbp",
    "mov [r11+48], r12",
    "mov [r11+56], r13",
    "mov [r11+64], r14",
    "mov [r11+72], r15",
    "mov [r11+80], rsp",
    "mov r10, [rsp+0]",
    "mov [r11+88], r10",
    "mov r10, [rsp+8]",
    "mov [r11+96], r10",
    "mov r10, [rsp+16]",
    "mov [r11+104], r10",
    "mov r10, [rsp+24]",
    "mov [r11+112], r10",
    "mov r10, [rsp+32]",
    "mov [r11+120], r10",
    "mov r10, [rsp+40]",
    "mov [r11+128], r10",
    "mov r10, [rsp+48]",
    "mov [r11+136], r10",
    "mov r10, [rsp+56]",
    "mov [r11+144], r10",
    "add rsp, 88",
    "pop r15",
    "pop r14",
    "pop r13",
    "pop r12",
    "pop rbp",
    "pop rbx",
    "ret",
    // ---- the fake: records what it sees on entry, loads seeded return registers
    // seen: [0..6) rdi rsi rdx rcx r8 r9 | [6..12) rbx rbp r12 r13 r14 r15 | [12] rsp | [13..21) stack args | [21..29) xmm0-7
    ".global vn_probe_fake",
    "vn_probe_fake:",
    "lea r11, [rip + VN_FAKE_SEEN]",
    "mov [r11+0], rdi",
    "mov [r11+8], rsi",
    "mov [r11+16], rdx",
    "mov [r11+24], rcx",
    "mov [r11+32], r8",
    "mov [r11+40], r9",
    "mov [r11+48], rbx",
    "mov [r11+56], rbp",
    "mov [r11+64], r12",
    "mov [r11+72], r13",
    "mov [r11+80], r14",
    "mov [r11+88], r15",
    "mov [r11+96], rsp",
    "mov r10, [rsp+8]",
    "mov [r11+104], r10",
    "mov r10, [rsp+16]",
    "mov [r11+112], r10",
    "mov r10, [rsp+24]",
    "mov [r11+120], r10",
    "mov r10, [rsp+32]",
    "mov [r11+128], r10",
    "mov r10, [rsp+40]",
    "mov [r11+136], r10",
    "mov r10, [rsp+48]",
    "mov [r11+144], r10",
    "mov r10, [rsp+56]",
    "mov [r11+152], r10",
    "mov r10, [rsp+64]",
    "mov [r11+160], r10",
    "movq [r11+168], xmm0",
    "movq [r11+176], xmm1",
    "movq [r11+184], xmm2",
    "movq [r11+192], xmm3",
    "movq [r11+200], xmm4",
    "movq [r11+208], xmm5",
    "movq [r11+216], xmm6",
    "movq [r11+224], xmm7",
    "lea r11, [rip + VN_FAKE_RET]",
    "mov rax, [r11+0]",
    "mov rdx, [r11+8]",
    "movq xmm0, [r11+16]",
    "movq xmm1, [r11+24]",
    "ret",
);

#[no_mangle]
pub static mut VN_FAKE_SEEN: [u64; 32] = [0; 32];
#[no_mangle]
pub static mut VN_FAKE_RET: [u64; 4] = [0; 4];

extern "C" {
    fn vn_probe_call(target: *const (), regs_in: *const u64, regs_out: *mut u64);
    fn vn_probe_fake();
}

// ---- Rust-level shapes (C13) -------------------------------------------------------------------
#[derive(Clone, Copy, PartialEq, Debug)]
#[repr(C)]
pub struct Big {
    pub a: [u64; 8],
}

#[inline(never)]
pub fn many_orig(a: u64, b: f64, c: u32, d: f32, e: i64, f: u8, g: f64, h: u64, i: u64, j: f64, k: i16, l: u64, m: &u64) -> f64 {
    black_box(a as f64 + b + c as f64 + d as f64 + e as f64 + f as f64 + g + h as f64 + i as f64 + j + k as f64 + l as f64 + *m as f64)
}
#[inline(never)]
pub fn many_fake(a: u64, b: f64, c: u32, d: f32, e: i64, f: u8, g: f64, h: u64, i: u64, j: f64, k: i16, l: u64, m: &u64) -> f64 {
    // position-weighted so that any swapped/clobbered argument changes the result
    black_box(a as f64 * 3.0 + b * 5.0 + c as f64 * 7.0 + d as f64 * 11.0 + e as f64 * 13.0 + f as f64 * 17.0 + g * 19.0 + h as f64 * 23.0 + i as f64 * 29.0 + j * 31.0 + k as f64 * 37.0 + l as f64 * 41.0 + *m as f64 * 43.0)
}
#[inline(never)]
pub fn big_orig(x: u64, y: u64) -> Big {
    Big { a: [black_box(x); 8].map(|v| v ^ y) }
}
#[inline(never)]
pub fn big_fake(x: u64, y: u64) -> Big {
    let mut a = [0u64; 8];
    for (i, s) in a.iter_mut().enumerate() {
        *s = black_box(x).wrapping_mul(i as u64 + 3).wrapping_add(y.rotate_left(i as u32));
    }
    Big { a }
}
#[inline(never)]
pub fn pair_orig(x: u64, y: u64) -> (u64, u64) {
    (black_box(x), black_box(y))
}
#[inline(never)]
pub fn pair_fake(x: u64, y: u64) -> (u64, u64) {
    (black_box(y) ^ 0xAAAA, black_box(x).wrapping_add(77))
}
#[inline(never)]
pub fn wide_orig(x: u64, y: u64) -> u128 {
    black_box(x) as u128 + y as u128
}
#[inline(never)]
pub fn wide_fake(x: u64, y: u64) -> u128 {
    ((black_box(x) as u128) << 64) | (y as u128 ^ 0x5555)
}

// ---- signature family for the forced boolean gate (C10) ---------------------------------------
/// forced to `true` through the same injector before every gate request: whatever the request's
/// outcome, this one stays forced until the injector goes away
#[inline(never)]
fn bs_companion(x: u32) -> bool {
    black_box(x) == 777
}
#[inline(never)]
fn bs_bool0() -> bool {
    black_box(false)
}
#[inline(never)]
fn bs_bool1(x: u32) -> bool {
    black_box(x) == 12345
}
#[inline(never)]
unsafe fn bs_bool_unsafe(x: u32) -> bool {
    black_box(x) == 12345
}
#[inline(never)]
extern "C" fn bs_bool_c(x: i32) -> bool {
    black_box(x) == 12345
}
#[inline(never)]
fn bs_bool3(a: &str, b: u64, c: f64) -> bool {
    black_box(a.len() as u64 + b) == 1 && c > 1e300
}
fn inner_true() -> bool {
    true
}
unsafe fn inner_unsafe(_x: i32) -> bool {
    true
}
#[inline(never)]
fn bs_ret_fnptr() -> fn() -> bool {
    black_box(inner_true)
}
#[inline(never)]
fn bs_ret_unsafe_fnptr() -> unsafe fn(i32) -> bool {
    black_box(inner_unsafe)
}
static DYN_TRUE: fn() -> bool = inner_true;
#[inline(never)]
fn bs_ret_dyn() -> &'static dyn Fn() -> bool {
    black_box(&DYN_TRUE)
}
#[inline(never)]
fn bs_ret_ptr_to_fnptr() -> *const fn() -> bool {
    black_box(&DYN_TRUE as *const fn() -> bool)
}
#[inline(never)]
fn bs_ret_u32() -> u32 {
    black_box(7)
}
#[inline(never)]
fn bs_ret_u8() -> u8 {
    black_box(7)
}
#[inline(never)]
fn bs_ret_string() -> String {
    black_box("s").to_string()
}
#[inline(never)]
fn bs_ret_unit() {
    black_box(());
}
#[inline(never)]
fn bs_ret_opt() -> Option<bool> {
    black_box(Some(true))
}

pub const N_SIGS: usize = 14;

/// (name, return type is exactly `bool`, address)
fn sig_entry(i: usize) -> (&'static str, bool, FuncPtr, usize) {
    match i {
        0 => ("fn() -> bool", true, injectorpp::func!(fn (bs_bool0)() -> bool), bs_bool0 as fn() -> bool as usize),
        1 => ("fn(u32) -> bool", true, injectorpp::func!(fn (bs_bool1)(u32) -> bool), bs_bool1 as fn(u32) -> bool as usize),
        2 => ("unsafe fn(u32) -> bool", true, injectorpp::func!(unsafe{} fn (bs_bool_unsafe)(u32) -> bool), bs_bool_unsafe as unsafe fn(u32) -> bool as usize),
        3 => ("extern \"C\" fn(i32) -> bool", true, injectorpp::func!(bs_bool_c, extern "C" fn(i32) -> bool), bs_bool_c as extern "C" fn(i32) -> bool as usize),
        4 => ("fn(&str, u64, f64) -> bool", true, injectorpp::func!(fn (bs_bool3)(&str, u64, f64) -> bool), bs_bool3 as fn(&str, u64, f64) -> bool as usize),
        5 => ("fn() -> fn() -> bool", false, injectorpp::func!(bs_ret_fnptr, fn() -> fn() -> bool), bs_ret_fnptr as fn() -> fn() -> bool as usize),
        6 => ("fn() -> unsafe fn(i32) -> bool", false, injectorpp::func!(bs_ret_unsafe_fnptr, fn() -> unsafe fn(i32) -> bool), bs_ret_unsafe_fnptr as fn() -> unsafe fn(i32) -> bool as usize),
        7 => ("fn() -> &'static dyn Fn() -> bool", false, injectorpp::func!(bs_ret_dyn, fn() -> &'static dyn Fn() -> bool), bs_ret_dyn as fn() -> &'static dyn Fn() -> bool as usize),
        8 => ("fn() -> *const fn() -> bool", false, injectorpp::func!(bs_ret_ptr_to_fnptr, fn() -> *const fn() -> bool), bs_ret_ptr_to_fnptr as fn() -> *const fn() -> bool as usize),
        9 => ("fn() -> u32", false, injectorpp::func!(fn (bs_ret_u32)() -> u32), bs_ret_u32 as fn() -> u32 as usize),
        10 => ("fn() -> u8", false, injectorpp::func!(fn (bs_ret_u8)() -> u8), bs_ret_u8 as fn() -> u8 as usize),
        11 => ("fn() -> String", false, injectorpp::func!(fn (bs_ret_string)() -> String), bs_ret_string as fn() -> String as usize),
        12 => ("fn()", false, injectorpp::func!(fn (bs_ret_unit)()), bs_ret_unit as fn() as usize),
        _ => ("fn() -> Option<bool>", false, injectorpp::func!(fn (bs_ret_opt)() -> Option<bool>), bs_ret_opt as fn() -> Option<bool> as usize),
    }
}

#[derive(Serialize, Deserialize, Clone, Debug, PartialEq)]
pub struct ProbeScenario {
    pub engine: String,
    pub family: String,
    pub profile: String,
    pub variant: String,
    pub seed: u64,
    pub index: u64,
    /// gate | boolregs | conv | shapes
    pub mode: String,
    /// gate: signature index
    pub sig: usize,
    /// gate: how the function is named: checked (typed pointer, `when_called`) | unchecked_typed
    /// (typed pointer, `when_called_unchecked`) | unchecked_untyped (`func_unchecked!`-style
    /// pointer, `when_called_unchecked`) | checked_untyped (untyped pointer, `when_called`)
    #[serde(default = "default_entry")]
    pub entry: String,
    /// gate: the request is made from a destructor while another panic unwinds the thread
    #[serde(default)]
    pub in_unwind: bool,
    pub value: bool,
    /// boolregs/conv: arena base and function offset of the synthetic target
    pub arena: u64,
    pub off: u64,
    /// index into arena::PROLOGUES: the synthetic target's first instruction
    #[serde(default)]
    pub prologue: usize,
    /// the synthetic target is a jump thunk (`jmp body`) onto another function that is never named
    #[serde(default)]
    pub thunk: bool,
    /// seeded register files
    pub regs: Vec<Vec<u64>>,
    pub rets: Vec<Vec<u64>>,
    pub classes: Vec<String>,
}

fn default_entry() -> String {
    "checked".into()
}

pub fn generate(profile: &str, seed: u64, index: u64) -> ProbeScenario {
    let mut rng = Rng::new(simos::rng::scenario_seed(seed, &format!("N/probe/{profile}"), index));
    let mode = match profile {
        "C10" => {
            if index % 3 == 0 {
                "gate"
            } else {
                "boolregs"
            }
        }
        _ => {
            if index % 4 == 3 {
                "shapes"
            } else {
                "conv"
            }
        }
    };
    let mut classes = vec![format!("mode-{mode}")];
    let sig = ((index / 3) % N_SIGS as u64) as usize;
    let value = rng.chance(1, 2);
    // arena near the image (short trampoline form) or far from it (long form)
    let near = rng.chance(1, 2);
    let arena = if near { 0x5555_4000_0000 + rng.below(0x1000) * 0x1000 } else { *rng.pick(&[0x1000_0000_0000u64, 0x10000, 0x7000_0000_0000, 0x2_0000_0000]) + rng.below(0x100) * 0x1000 };
    let off = *rng.pick(&[0u64, 1, 0x7f3, 0xff0, 0xff9, 0xffb, 0xffc, 0xffe]);
    let prologue = rng.below(crate::arena::PROLOGUES.len() as u64) as usize;
    if mode != "gate" && mode != "shapes" {
        classes.push(if near { "target-near-image".into() } else { "target-far-from-image".into() });
        classes.push(format!("off{off:x}"));
        classes.push(format!("prologue{prologue}"));
        if index % 5 == 1 {
            classes.push("thunk-target".into());
        }
    }
    let entry = ["checked", "unchecked_untyped", "unchecked_typed", "checked_untyped"][((index / 3 / N_SIGS as u64) % 4) as usize];
    let in_unwind = mode == "gate" && (index / 3 / N_SIGS as u64 / 4) % 2 == 1;
    if mode == "gate" {
        classes.push(format!("sig{sig}-{value}-{entry}{}", if in_unwind { "-while-unwinding" } else { "" }));
    }
    let n = 8;
    let mut regs = Vec::new();
    let mut rets = Vec::new();
    for _ in 0..n {
        let mut r: Vec<u64> = (0..29).map(|_| rng.next_u64()).collect();
        if rng.chance(1, 4) {
            for x in r.iter_mut().take(6) {
                *x = *rng.pick(&[0, 1, u64::MAX, 0x8000_0000_0000_0000]);
            }
        }
        r[28] = rng.below(9);
        regs.push(r);
        rets.push((0..4).map(|_| rng.next_u64()).collect());
    }
    classes.sort();
    ProbeScenario {
        engine: "N".into(),
        family: "probe".into(),
        profile: profile.into(),
        variant: "x86_64-linux-native".into(),
        seed,
        index,
        mode: mode.into(),
        sig,
        entry: entry.into(),
        in_unwind,
        value,
        arena,
        off,
        prologue,
        thunk: mode != "gate" && mode != "shapes" && index % 5 == 1,
        regs,
        rets,
        classes,
    }
}

fn panic_msg(p: &Box<dyn std::any::Any + Send>) -> String {
    if let Some(s) = p.downcast_ref::<String>() {
        s.clone()
    } else if let Some(s) = p.downcast_ref::<&str>() {
        s.to_string()
    } else {
        "<non-string payload>".into()
    }
}

pub fn execute(sc: &ProbeScenario, sh: &Shared) -> Value {
    let viol: std::cell::RefCell<Vec<Value>> = std::cell::RefCell::new(Vec::new());
    let v = |tag: &str, props: &[&str], detail: String| {
        let mut viol = viol.borrow_mut();
        if viol.len() < 16 && !viol.iter().any(|x| x["tag"] == tag) {
            viol.push(json!({"tag": tag, "props": props, "detail": detail}));
        }
    };
    let mut digest = 0xB0u64;
    let mut probes: std::collections::BTreeMap<String, u64> = Default::default();
    let mut faults: std::collections::BTreeMap<String, u64> = Default::default();
    let mut calls = 0u64;
    sh.note(PH_SETUP, 0, 0, 0);
    match sc.mode.as_str() {
        "gate" => {
            struct InDrop<F: FnMut()>(Option<F>);
            impl<F: FnMut()> Drop for InDrop<F> {
                fn drop(&mut self) {
                    if let Some(mut f) = self.0.take() {
                        f()
                    }
                }
            }
            struct Outer;
            let mut gate_body = || {
            let (name, is_bool, ptr, addr) = sig_entry(sc.sig);
            let before: Vec<u8> = unsafe { std::slice::from_raw_parts(addr as *const u8, 16).to_vec() };
            let mut inj = InjectorPP::new();
            inj.when_called(injectorpp::func!(fn (bs_companion)(u32) -> bool)).will_return_boolean(true);
            if !black_box(bs_companion as fn(u32) -> bool)(1) {
                v("forced-boolean-not-returned", &["C10"], "the companion function was forced to true but returns false".into());
            }
            let mark = interpose::ledger_len();
            interpose::arm(true);
            sh.note(PH_INSTALL, 0, sc.sig as u64, 0);
            let r = catch_unwind(AssertUnwindSafe(|| unsafe {
                match sc.entry.as_str() {
                    "unchecked_typed" => inj.when_called_unchecked(ptr).will_return_boolean(sc.value),
                    "unchecked_untyped" => inj.when_called_unchecked(FuncPtr::new(addr as *const (), "")).will_return_boolean(sc.value),
                    "checked_untyped" => inj.when_called(FuncPtr::new(addr as *const (), "")).will_return_boolean(sc.value),
                    _ => inj.when_called(ptr).will_return_boolean(sc.value),
                }
            }));
            interpose::arm(false);
            let ledger = interpose::ledger_since(mark);
            let after: Vec<u8> = unsafe { std::slice::from_raw_parts(addr as *const u8, 16).to_vec() };
            // When the function is named without its type the library cannot know the return
            // type: refusing a bool function is then within the statement ("accepted ONLY for
            // bool"), accepting a non-bool one is not.
            let typed = sc.entry == "checked";
            if !typed {
                *probes.entry(format!("gate_entry_{}", sc.entry)).or_insert(0) += 1;
            }
            match (r, is_bool) {
                (Err(_), true) if !typed => {
                    digest ^= 4;
                    if after != before {
                        v("forced-boolean-refusal-modified-function", &["C10"], format!("`{name}` ({}): entry bytes changed by a refused request", sc.entry));
                    }
                }
                (Ok(()), true) => {
                    digest ^= 1;
                    // every call returns exactly the value, whatever the arguments
                    sh.note(PH_CALL_LIVE, 0, sc.sig as u64, 0);
                    let got: Vec<bool> = match sc.sig {
                        0 => vec![black_box(bs_bool0 as fn() -> bool)()],
                        1 => sc.regs.iter().map(|r| black_box(bs_bool1 as fn(u32) -> bool)(r[0] as u32)).chain([black_box(bs_bool1 as fn(u32) -> bool)(12345)]).collect(),
                        2 => sc.regs.iter().map(|r| unsafe { black_box(bs_bool_unsafe as unsafe fn(u32) -> bool)(r[0] as u32) }).collect(),
                        3 => sc.regs.iter().map(|r| black_box(bs_bool_c as extern "C" fn(i32) -> bool)(r[0] as i32)).chain([black_box(bs_bool_c as extern "C" fn(i32) -> bool)(12345)]).collect(),
                        _ => sc.regs.iter().map(|r| black_box(bs_bool3 as fn(&str, u64, f64) -> bool)("x", r[1], f64::from_bits(r[2]))).collect(),
                    };
                    calls += got.len() as u64;
                    if got.iter().any(|g| *g != sc.value) {
                        v("forced-boolean-not-returned", &["C10"], format!("{name}: forced {} but calls returned {:?}", sc.value, got));
                    }
                }
                (Ok(()), false) => {
                    v("forced-boolean-accepted-for-non-bool-function", &["C10"], format!("will_return_boolean({}) was accepted for a function of type `{name}` (named: {}), whose return type is not bool (entry bytes now {:02x?})", sc.value, sc.entry, after));
                }
                (Err(p), true) => {
                    v("forced-boolean-refused-for-bool-function", &["C10"], format!("will_return_boolean refused `{name}`: {}", panic_msg(&p)));
                }
                (Err(p), false) => {
                    digest ^= 2;
                    *faults.entry("boolean_refused_for_non_bool".into()).or_insert(0) += 1;
                    let msg = panic_msg(&p);
                    if !msg.contains("Signature mismatch") {
                        v("forced-boolean-refusal-wrong-message", &["C10"], format!("`{name}` ({}): refusal message {msg:?}", sc.entry));
                    }
                    if !ledger.is_empty() {
                        v("forced-boolean-refusal-after-os-event", &["C10"], format!("`{name}`: the refusal came after OS events {:?}", ledger));
                    }
                    if after != before {
                        v("forced-boolean-refusal-modified-function", &["C10"], format!("`{name}`: entry bytes changed by a refused request"));
                    }
                }
            }
            // an accepted forced value stays in force while the injector lives, whatever was
            // requested (and refused) through the same injector afterwards
            if !black_box(bs_companion as fn(u32) -> bool)(1) {
                v("earlier-forced-boolean-lost-after-a-later-request", &["C10"], format!("`{name}` ({}): after this request the companion function, forced to true earlier through the same injector, returns false again", sc.entry));
            }
            calls += 2;
            drop(inj);
            if black_box(bs_companion as fn(u32) -> bool)(1) {
                v("not-restored-after-scope-exit", &["C02"], "the companion function still returns the forced value after drop".into());
            }
            let restored: Vec<u8> = unsafe { std::slice::from_raw_parts(addr as *const u8, 16).to_vec() };
            if restored != before {
                v("not-restored-after-scope-exit", &["C02"], format!("`{name}`: entry bytes differ after drop"));
            }
                    };
            if sc.in_unwind {
                let r = catch_unwind(AssertUnwindSafe(|| {
                    let _g = InDrop(Some(&mut gate_body));
                    std::panic::panic_any(Outer);
                }));
                if let Err(p) = r {
                    if !p.is::<Outer>() {
                        v("forced-boolean-refusal-wrong-message", &["C10"], format!("a panic escaped the fixture's destructor: {}", panic_msg(&p)));
                    }
                }
            } else {
                gate_body();
            }
        }
        "boolregs" | "conv" => {
            let base = sc.arena;
            if !arena::map_rw(base, 2 * 4096) {
                return json!({"skipped": "arena unavailable"});
            }
            let target = base + sc.off;
            // body of a thunk target: a second function on the second page, never named in an installation
            let body = base + 0x1400;
            arena::write_const_fn(body, 0xB0D15A);
            if sc.thunk {
                arena::write_jmp_fn(target, body);
            } else {
                arena::write_fn_with_prologue(target, 0xAB5A, sc.prologue);
            }
            let target_orig: u32 = if sc.thunk { 0xB0D15A } else { 0xAB5A };
            arena::seal_rx(base, 2 * 4096);
            let mut inj = InjectorPP::new();
            let mark = interpose::ledger_len();
            interpose::arm(true);
            sh.note(PH_INSTALL, 0, 0, 0);
            let is_bool = sc.mode == "boolregs";
            let r = catch_unwind(AssertUnwindSafe(|| unsafe {
                if is_bool {
                    inj.when_called(FuncPtr::new(target as *const (), "fn() -> bool")).will_return_boolean(sc.value)
                } else {
                    inj.when_called(FuncPtr::new(target as *const (), "unsafe extern \"C\" fn()")).will_execute_raw(FuncPtr::new(vn_probe_fake as *const (), "unsafe extern \"C\" fn()"))
                }
            }));
            interpose::arm(false);
            let r_ok = r.is_ok();
            if let Err(p) = r {
                v("probe-install-panicked", if is_bool { &["C10"] } else { &["C13"] }, format!("installation on synthetic target at {target:#x} panicked: {}", panic_msg(&p)));
            } else {
                for ev in interpose::ledger_since(mark) {
                    if let NEv::Flush { bytes, .. } = ev {
                        if bytes.len() >= 12 && bytes[0] == 0x48 && bytes[1] == 0xB8 {
                            *probes.entry("long_form_in_jit".into()).or_insert(0) += 1;
                        } else if bytes.len() == 12 || bytes.len() == 5 && bytes[0] == 0xE9 {
                            *probes.entry("short_form_seen".into()).or_insert(0) += 1;
                        }
                    }
                }
                for (ri, regs) in sc.regs.iter().enumerate() {
                    let mut out = [0u64; 20];
                    unsafe {
                        VN_FAKE_SEEN = [0; 32];
                        VN_FAKE_RET = [sc.rets[ri][0], sc.rets[ri][1], sc.rets[ri][2], sc.rets[ri][3]];
                    }
                    sh.note(PH_CALL_LIVE, 0, ri as u64, 0);
                    unsafe { vn_probe_call(target as *const (), regs.as_ptr(), out.as_mut_ptr()) };
                    calls += 1;
                    // (slots 10 and 19 are stack pointers: where the stack is depends on the size of
                    // the environment and of argv, so only their difference goes into the digest)
                    for (k, x) in out.iter().enumerate() {
                        if k != 10 && k != 19 {
                            digest = digest.rotate_left(7) ^ *x;
                        }
                    }
                    digest = digest.rotate_left(7) ^ out[10].wrapping_sub(out[19]);
                    let names = ["rbx", "rbp", "r12", "r13", "r14", "r15"];
                    let prop: &[&str] = if is_bool { &["C10"] } else { &["C13"] };
                    for k in 0..6 {
                        if out[4 + k] != regs[6 + k] {
                            v("callee-saved-register-changed", prop, format!("register file #{ri}: {} = {:#x} after the call, {:#x} before", names[k], out[4 + k], regs[6 + k]));
                        }
                    }
                    if out[10] != out[19] {
                        v("stack-pointer-changed", prop, format!("register file #{ri}: rsp {:#x} after the call, {:#x} before", out[10], out[19]));
                    }
                    for k in 0..8 {
                        if out[11 + k] != regs[12 + k] {
                            v("caller-stack-slot-changed", prop, format!("register file #{ri}: stack slot {k} = {:#x} after the call, {:#x} before", out[11 + k], regs[12 + k]));
                        }
                    }
                    if is_bool {
                        if out[0] & 0xFF != sc.value as u64 {
                            v("forced-boolean-not-returned", &["C10"], format!("register file #{ri}: al = {:#x}, forced value {}", out[0] & 0xFF, sc.value));
                        }
                    } else {
                        let seen = unsafe { VN_FAKE_SEEN };
                        let an = ["rdi", "rsi", "rdx", "rcx", "r8", "r9"];
                        for k in 0..6 {
                            if seen[k] != regs[k] {
                                v("argument-register-changed", &["C13"], format!("register file #{ri}: the fake saw {} = {:#x}, the caller passed {:#x}", an[k], seen[k], regs[k]));
                            }
                            if seen[6 + k] != regs[6 + k] {
                                v("callee-saved-register-changed-on-entry", &["C13"], format!("register file #{ri}: the fake saw {} = {:#x}, the caller had {:#x}", names[k], seen[6 + k], regs[6 + k]));
                            }
                        }
                        for k in 0..8 {
                            if seen[13 + k] != regs[12 + k] {
                                v("stack-argument-changed", &["C13"], format!("register file #{ri}: stack argument {k} seen as {:#x}, passed {:#x}", seen[13 + k], regs[12 + k]));
                            }
                            if seen[21 + k] != regs[20 + k] {
                                v("vector-argument-changed", &["C13"], format!("register file #{ri}: xmm{k} seen as {:#x}, passed {:#x}", seen[21 + k], regs[20 + k]));
                            }
                        }
                        // rsp on entry to the fake = rsp before the call - 8 (return address)
                        if seen[12] != out[19].wrapping_sub(8) {
                            v("stack-pointer-changed-on-entry", &["C13"], format!("register file #{ri}: rsp at the fake's entry {:#x}, expected {:#x}", seen[12], out[19].wrapping_sub(8)));
                        }
                        let rn = ["rax", "rdx", "xmm0", "xmm1"];
                        for k in 0..4 {
                            if out[k] != sc.rets[ri][k] {
                                v("return-register-changed", &["C13"], format!("register file #{ri}: caller received {} = {:#x}, the fake returned {:#x}", rn[k], out[k], sc.rets[ri][k]));
                            }
                        }
                    }
                }
            }
            // a child forked while the fake is installed inherits the patched code and everything it
            // leads to: the same probe call gives the same result there
            if r_ok && sc.index % 2 == 0 {
                let regs = sc.regs[0].clone();
                let rets = sc.rets[0].clone();
                let value = sc.value;
                let r = in_fork(move || {
                    let mut out = [0u64; 20];
                    unsafe {
                        VN_FAKE_SEEN = [0; 32];
                        VN_FAKE_RET = [rets[0], rets[1], rets[2], rets[3]];
                        vn_probe_call(target as *const (), regs.as_ptr(), out.as_mut_ptr());
                    }
                    if is_bool {
                        ((out[0] & 0xFF) == value as u64) as u64
                    } else {
                        let seen = unsafe { VN_FAKE_SEEN };
                        let args_ok = (0..6).all(|k| seen[k] == regs[k]) && (0..8).all(|k| seen[13 + k] == regs[12 + k] && seen[21 + k] == regs[20 + k]);
                        let rets_ok = (0..4).all(|k| out[k] == rets[k]);
                        (args_ok && rets_ok) as u64
                    }
                });
                *probes.entry("probe_call_in_a_forked_child".into()).or_insert(0) += 1;
                let prop: &[&str] = if is_bool { &["C10"] } else { &["C13"] };
                match r {
                    Ok(1) => {}
                    Ok(_) => v("probe-call-in-forked-child-differs", prop, format!("a child forked while the synthetic target at {target:#x} was faked did not get {} from the same call", if is_bool { "the forced value" } else { "its arguments to the fake and the fake's results back" })),
                    Err(e) => v("probe-call-in-forked-child-died", prop, format!("a child forked while the synthetic target at {target:#x} was faked died calling it ({})", if e > 0 { format!("signal {e}") } else { format!("status {}", -e) })),
                }
            }
            // the function behind a thunk was never named: it keeps its own behaviour while the
            // thunk is faked ("no other observable effect")
            if r_ok {
                sh.note(PH_OTHER, 0, 0, 7);
                let b = arena::call_u32(body);
                if b != 0xB0D15A {
                    v("function-behind-thunk-changed-behaviour", if is_bool { &["C10", "C03"] } else { &["C13", "C03"] }, format!("the target at {target:#x} is a `jmp` thunk onto {body:#x}; faking the thunk made a direct call of the body return {b:#x} instead of 0xb0d15a"));
                }
            }
            drop(inj);
            sh.note(PH_CALL_AFTER, 0, 0, 0);
            if arena::call_u32(target) != target_orig {
                v("call-after-scope-exit-not-original", &["C02"], format!("synthetic target at {target:#x} does not return its constant after drop"));
            }
            // after this process has had a lifetime of its own, a forked child has one: what it
            // forces is forced in the child, and nothing of it shows here
            if is_bool && r_ok && sc.index % 3 == 1 {
                let value = sc.value;
                let before: Vec<u8> = unsafe { std::slice::from_raw_parts(target as *const u8, 16).to_vec() };
                let r = in_fork(move || unsafe {
                    let mut inj = InjectorPP::new();
                    inj.when_called(FuncPtr::new(target as *const (), "fn() -> bool")).will_return_boolean(value);
                    let v1 = arena::call_u32(target) & 0xFF;
                    drop(inj);
                    let v2 = arena::call_u32(target);
                    ((v1 as u64) << 32) | v2 as u64
                });
                *probes.entry("forced_boolean_in_a_forked_child".into()).or_insert(0) += 1;
                match r {
                    Ok(x) => {
                        let (v1, v2) = ((x >> 32) as u32, x as u32);
                        if v1 != value as u32 || v2 != target_orig {
                            v("forced-boolean-not-returned", &["C10"], format!("in a forked child the synthetic target at {target:#x} returned {v1:#x} while forced to {value} and {v2:#x} after its injector went (original {target_orig:#x})"));
                        }
                    }
                    Err(e) => v("probe-call-in-forked-child-died", &["C10"], format!("a forked child died during its own forced-boolean lifetime ({})", if e > 0 { format!("signal {e}") } else { format!("status {}", -e) })),
                }
                let after: Vec<u8> = unsafe { std::slice::from_raw_parts(target as *const u8, 16).to_vec() };
                if after != before || arena::call_u32(target) != target_orig {
                    v("forced-boolean-in-child-changed-this-process", &["C10", "C03"], format!("after a forked child's own lifetime the synthetic target at {target:#x} in THIS process has entry bytes {:02x?} (before {:02x?})", after, before));
                }
            }
        }
        _ => {
            // Rust-level shapes: many mixed arguments, large struct return, two-register returns
            let mut inj = InjectorPP::new();
            inj.when_called(injectorpp::func!(fn (many_orig)(u64, f64, u32, f32, i64, u8, f64, u64, u64, f64, i16, u64, &u64) -> f64))
                .will_execute_raw(injectorpp::func!(fn (many_fake)(u64, f64, u32, f32, i64, u8, f64, u64, u64, f64, i16, u64, &u64) -> f64));
            inj.when_called(injectorpp::func!(fn (big_orig)(u64, u64) -> Big)).will_execute_raw(injectorpp::func!(fn (big_fake)(u64, u64) -> Big));
            inj.when_called(injectorpp::func!(fn (pair_orig)(u64, u64) -> (u64, u64))).will_execute_raw(injectorpp::func!(fn (pair_fake)(u64, u64) -> (u64, u64)));
            inj.when_called(injectorpp::func!(fn (wide_orig)(u64, u64) -> u128)).will_execute_raw(injectorpp::func!(fn (wide_fake)(u64, u64) -> u128));
            for (ri, r) in sc.regs.iter().enumerate() {
                sh.note(PH_CALL_LIVE, 0, ri as u64, 1);
                let m = r[12];
                let f = |x: u64| (x % 100_000) as f64 / 8.0;
                let args = (r[0] % 1000, f(r[1]), r[2] as u32 % 1000, f(r[3]) as f32, (r[4] % 1000) as i64 - 500, r[5] as u8, f(r[6]), r[7] % 1000, r[8] % 1000, f(r[9]), r[10] as i16 % 100, r[11] % 1000);
                let mm = m % 1000;
                let got = black_box(many_orig as fn(u64, f64, u32, f32, i64, u8, f64, u64, u64, f64, i16, u64, &u64) -> f64)(args.0, args.1, args.2, args.3, args.4, args.5, args.6, args.7, args.8, args.9, args.10, args.11, &mm);
                let want = many_fake(args.0, args.1, args.2, args.3, args.4, args.5, args.6, args.7, args.8, args.9, args.10, args.11, &mm);
                calls += 4;
                if got.to_bits() != want.to_bits() {
                    v("rust-level-arguments-or-result-changed", &["C13"], format!("13 mixed arguments: got {got}, the fake computes {want}"));
                }
                let g = black_box(big_orig as fn(u64, u64) -> Big)(r[0], r[1]);
                if g != big_fake(r[0], r[1]) {
                    v("rust-level-arguments-or-result-changed", &["C13"], format!("[u64; 8] struct return differs: {:x?}", g));
                }
                let p = black_box(pair_orig as fn(u64, u64) -> (u64, u64))(r[2], r[3]);
                if p != pair_fake(r[2], r[3]) {
                    v("rust-level-arguments-or-result-changed", &["C13"], format!("(u64, u64) return differs: {:x?}", p));
                }
                let w = black_box(wide_orig as fn(u64, u64) -> u128)(r[4], r[5]);
                if w != wide_fake(r[4], r[5]) {
                    v("rust-level-arguments-or-result-changed", &["C13"], format!("u128 return differs: {:x}", w));
                }
                digest = digest.rotate_left(9) ^ got.to_bits() ^ g.a[3] ^ p.0 ^ w as u64;
            }
            drop(inj);
            let mm = 1u64;
            if many_orig(1, 1.0, 1, 1.0, 1, 1, 1.0, 1, 1, 1.0, 1, 1, &mm) != 13.0 || big_orig(1, 2).a[0] != 3 || pair_orig(1, 2) != (1, 2) || wide_orig(1, 2) != 3 {
                v("call-after-scope-exit-not-original", &["C02"], "Rust-level shape functions are not original after drop".into());
            }
        }
    }
    sh.note(PH_DONE, 0, 0, 0);
    json!({
        "violations": viol.into_inner(),
        "digest": format!("{:016x}", digest),
        "probes": probes,
        "faults": faults,
        "events": calls,
        "calls": calls,
        "installs_ok": 1,
        "installs_refused": 0,
    })
}

pub fn signal_violation(sig: i32, sh: &Shared, mode_props: &str) -> Value {
    let name = signal_name(sig);
    let ph = sh.get(0);
    let phase = match ph {
        PH_INSTALL => "install",
        PH_CALL_LIVE => "call-while-faked",
        PH_CALL_AFTER => "call-after-scope-exit",
        _ => "other",
    };
    json!({"tag": format!("died-with-signal[{name}:{phase}]"), "props": [mode_props], "detail": format!("killed by {name} during {phase} (item {})", sh.get(2))})
}
