//! C15, direct sub-check of the macOS long-jump emitter: (pc, target) pairs within +/-4 GiB.
//! The emitted words are placed at `pc` in a simulated text page and executed by the A64
//! reference interpreter: control must arrive exactly at `target`, writing only x9..x17.

use serde::{Deserialize, Serialize};
use simos::interp;
use simos::rng::Rng;
use simos::world::{Owner, World, PROT_R, PROT_X};

#[derive(Serialize, Deserialize, Clone, Debug, PartialEq)]
pub struct LjScenario {
    pub engine: String,
    pub profile: String,
    pub variant: String,
    pub seed: u64,
    pub index: u64,
    pub pairs: Vec<(u64, u64)>,
    pub classes: Vec<String>,
}

pub fn generate(seed: u64, index: u64) -> LjScenario {
    let mut rng = Rng::new(simos::rng::scenario_seed(seed, "S/C15L", index));
    let mut pairs = Vec::new();
    let mut classes = Vec::new();
    for _ in 0..64 {
        let pc = (0x1_0000_0000u64 + rng.below(0x3000_0000_0000)) & !3;
        let c = rng.below(10);
        let disp: i64 = match c {
            0 => *rng.pick(&[(1i64 << 27) - 4, 1 << 27, (1 << 27) + 4, -(1 << 27), -(1 << 27) - 4, -(1 << 27) + 4]),
            1 => *rng.pick(&[(1i64 << 31) - 4, 1 << 31, -(1i64 << 31), (1 << 32) - 4096, -(1i64 << 32) + 4096, (1 << 32) - 4, -(1i64 << 32) + 4]),
            2 => rng.range(0, 1 << 28) as i64 - (1 << 27),
            3 => (rng.range(0, 1 << 20) as i64 - (1 << 19)) * 4,
            4 => {
                // page-offset carries: pc near the end of a page, target near the start, and vice versa
                let d = rng.range(0, 1 << 33) as i64 - (1 << 32);
                (d & !0xFFF) + *rng.pick(&[0i64, 4, 0xFFC, 0x800])
            }
            _ => rng.range(0, (1u64 << 33) - 8192) as i64 - ((1i64 << 32) - 4096),
        };
        let target = (pc as i64 + disp) as u64;
        if target < 0x10000 || target >= 0x4000_0000_0000 {
            continue;
        }
        // the target of a code branch need not be word-aligned for ADRP/ADD/BR; B needs it
        let target = if disp.unsigned_abs() < (1 << 27) { target & !3 } else { target };
        classes.push(format!("disp-class{c}"));
        pairs.push((pc, target));
    }
    classes.sort();
    classes.dedup();
    LjScenario { engine: "S".into(), profile: "C15L".into(), variant: "aarch64_macos".into(), seed, index, pairs, classes }
}

pub struct LjOutcome {
    pub violations: Vec<(String, String)>,
    pub digest: u64,
    pub pairs: u64,
    pub long_forms: u64,
    pub skipped: bool,
    pub refused: u64,
}

pub fn execute(sc: &LjScenario) -> LjOutcome {
    let mut out = LjOutcome { violations: Vec::new(), digest: 0x15, pairs: 0, long_forms: 0, skipped: false, refused: 0 };
    for (pc, target) in &sc.pairs {
        let (pcc, tgt) = (*pc as usize, *target as usize);
        let words = match std::panic::catch_unwind(move || ipp_aarch64_macos::__verif_long_jump(pcc, tgt)) {
            Ok(Some(w)) => w,
            Ok(None) => {
                out.skipped = true;
                return out;
            }
            Err(_) => {
                // refused (panic): legitimate only for a pair no B / ADRP+ADD can encode
                let page_diff = ((*target & !0xFFF) as i64 - (*pc & !0xFFF) as i64) >> 12;
                let encodable = (-(1i64 << 20)..(1i64 << 20)).contains(&page_diff);
                out.refused += 1;
                if encodable {
                    out.violations.push(("macos-long-jump-refused-encodable-pair".to_string(), format!("pc {:#x} target {:#x}: refused although ADRP can encode the page displacement {page_diff}", pc, target)));
                    break;
                }
                continue;
            }
        };
        out.pairs += 1;
        if words.len() > 1 {
            out.long_forms += 1;
        }
        let ps = 0x4000u64;
        let mut w = World::new(ps);
        let base = pc & !(ps - 1);
        let mut data = vec![0u8; 2 * ps as usize];
        for (i, wd) in words.iter().enumerate() {
            let off = (pc - base) as usize + 4 * i;
            data[off..off + 4].copy_from_slice(&wd.to_le_bytes());
            out.digest = out.digest.rotate_left(7) ^ *wd as u64;
        }
        w.map_fixed(base, 2 * ps, PROT_R | PROT_X, Owner::Text, Some(data));
        let end = pc + 4 * words.len() as u64;
        let x = interp::run_a64(&w, *pc, &[(*pc, end)], Some(*target), 16);
        let bad_regs = x.written & !0x3FE00;
        if x.error.is_some() || x.returned || x.final_pc != *target {
            let tag = if words.len() == 1 { "macos-entry-direct-branch-misses-target" } else { "macos-long-jump-misses-target" };
            out.violations.push((
                tag.to_string(),
                format!("pc {:#x} target {:#x} (displacement {:+#x}): emitted {:08x?} leads to {:#x} (error {:?})", pc, target, *target as i128 - *pc as i128, words, x.final_pc, x.error),
            ));
            break;
        }
        if bad_regs != 0 {
            out.violations.push(("macos-long-jump-clobbers-register".to_string(), format!("pc {:#x} target {:#x}: registers written mask {:#x}", pc, target, x.written)));
            break;
        }
    }
    out
}
