//! C15, direct sub-check of the macOS long-jump emitter: (pc, target) pairs within +/-4 GiB.
//! The emitted words are placed at `pc` in a simulated text page and executed by the A64
//! reference interpreter: control must arrive exactly at `target`, writing only x9..x17.

use serde::{Deserialize, Serialize};
use simos::interp;
use simos::rng::Rng;
use simos::world::{Owner, World, PROT_R, PROT_X};

#[derive(Serialize, Deserialize, Clone, Debug, PartialEq)]
pub struct LjScenario {
    pub engine: String,
    pub profile: String,
    pub variant: String,
    pub seed: u64,
    pub index: u64,
    pub pairs: Vec<(u64, u64)>,
    pub classes: Vec<String>,
}

pub fn generate(seed: u64, index: u64) -> LjScenario {
    let mut rng = Rng::new(simos::rng::scenario_seed(seed, "S/C15L", index));
    let mut pairs = Vec::new();
    let mut classes = Vec::new();
    for _ in 0..64 {
        let pc = (0x1_0000_0000u64 + rng.below(0x3000_0000_0000)) & !3;
        let c = rng.below(10);
        let disp: i64 = match c {
            0 => *rng.pick(&[(1i64 << 27) - 4, 1 << 27, (1 << 27) + 4, -(1 << 27), -(1 << 27) - 4, -(1 << 27) + 4]),
            1 => *rng.pick(&[(1i64 << 31) - 4, 1 << 31, -(1i64 << 31), (1 << 32) - 4096, -(1i64 << 32) + 4096, (1 << 32) - 4, -(1i64 << 32) + 4]),
            2 => rng.range(0, 1 << 28) as i64 - (1 << 27),
            3 => (rng.range(0, 1 << 20) as i64 - (1 << 19)) * 4,
            4 => {
                // page-offset carries: pc near the end of a page, target near the start, and vice versa
                let d = rng.range(0, 1 << 33) as i64 - (1 << 32);
                (d & !0xFFF) + *rng.pick(&[0i64, 4, 0xFFC, 0x800])
            }
            _ => rng.range(0, (1u64 << 33) - 8192) as i64 - ((1i64 << 32) - 4096),
        };
        let target = (pc as i64 + disp) as u64;
        if target < 0x10000 || target >= 0x4000_0000_0000 {
            continue;
        }
        // the target of a code branch need not be word-aligned for ADRP/ADD/BR; B needs it
        let target = if disp.unsigned_abs() < (1 << 27) { target & !3 } else { target };
        classes.push(format!("disp-class{c}"));
        pairs.push((pc, target));
    }
    classes.sort();
    classes.dedup();
    LjScenario { engine: "S".into(), profile: "C15L".into(), variant: "aarch64_macos".into(), seed, index, pairs, classes }
}

/// C15, direct sub-check of the entry-branch writer (Linux/Windows flavour): (function, trampoline)
/// pairs with word-aligned displacements across and beyond +/-128 MiB.  In range: the entry must
/// decode to a branch to exactly the trampoline.  Out of range: refused, and the entry untouched.
pub fn generate_b(seed: u64, index: u64) -> LjScenario {
    let mut rng = Rng::new(simos::rng::scenario_seed(seed, "S/C15B", index));
    let mut pairs = Vec::new();
    let mut classes = Vec::new();
    for _ in 0..32 {
        let func = (0x1_0000_0000u64 + rng.below(0x3000_0000_0000)) & !3;
        let c = rng.below(8);
        let m = 1i64 << 27;
        let disp: i64 = match c {
            0 => *rng.pick(&[m - 4, m, m + 4, -m, -m - 4, -m + 4]),
            1 => *rng.pick(&[2 * m, 2 * m + 0x1000, -2 * m, 4 * m, 1 << 31, -(1i64 << 31), (1 << 32) + 0x100, -(1i64 << 32) - 0x100]),
            2 => (rng.range(0, 1 << 26) as i64 - (1 << 25)) * 4,          // in range
            3 => m + 4 * rng.below(1 << 20) as i64,                       // just beyond, above
            4 => -m - 4 - 4 * rng.below(1 << 20) as i64,                  // just beyond, below
            5 => 4 * (rng.range(0, 1 << 31) as i64 - (1 << 30)),          // anywhere within +/-4 GiB
            _ => (rng.range(0, 1 << 20) as i64 - (1 << 19)) * 4,
        };
        let jit = func as i64 + disp;
        if jit < 0x10000 || jit >= 0x4000_0000_0000 {
            continue;
        }
        classes.push(format!("bdisp-class{c}"));
        pairs.push((func, jit as u64));
    }
    classes.sort();
    classes.dedup();
    LjScenario { engine: "S".into(), profile: "C15B".into(), variant: "aarch64_linux".into(), seed, index, pairs, classes }
}

fn execute_b(sc: &LjScenario) -> LjOutcome {
    let mut out = LjOutcome { violations: Vec::new(), digest: 0x1B, pairs: 0, long_forms: 0, skipped: false, refused: 0 };
    for (func, jit) in &sc.pairs {
        let ps = 0x1000u64;
        let mut w = World::new(ps);
        let base = func & !(ps - 1);
        let mut data = vec![0u8; 2 * ps as usize];
        for (i, b) in data.iter_mut().enumerate() {
            *b = (i as u8).wrapping_mul(37) ^ 0xA5;
        }
        let pristine = data.clone();
        w.map_fixed(base, 2 * ps, PROT_R | PROT_X, Owner::Text, Some(data));
        simos::world::install_world(w);
        let (f, j) = (*func as usize, *jit as usize);
        let r = ipp_aarch64_linux::__verif_branch_patch(f, j);
        let w = simos::world::take_world().unwrap();
        let r = match r {
            Some(r) => r,
            None => {
                out.skipped = true;
                return out;
            }
        };
        out.pairs += 1;
        let disp = *jit as i64 - *func as i64;
        let in_range = (-(1i64 << 27)..(1i64 << 27)).contains(&disp);
        let now = w.peek(base, 2 * ps as usize).unwrap_or_default();
        out.digest = out.digest.rotate_left(9) ^ (r.is_ok() as u64) ^ (disp as u64);
        match (&r, in_range) {
            (Ok(()), true) => {
                let x = interp::run_a64(&w, *func, &[(*func, *func + 12)], Some(*jit), 8);
                if x.error.is_some() || x.returned || x.final_pc != *jit {
                    out.violations.push(("entry-branch-misses-trampoline[direct]".to_string(), format!("function {:#x}, trampoline {:#x} (displacement {:+#x}): the entry now leads to {:#x} (error {:?})", func, jit, disp, x.final_pc, x.error)));
                    break;
                }
                if x.written & !0x3FE00 != 0 {
                    out.violations.push(("entry-branch-clobbers-register[direct]".to_string(), format!("function {:#x}, trampoline {:#x}: registers written mask {:#x}", func, jit, x.written)));
                    break;
                }
            }
            (Err(_), true) => {
                out.violations.push(("entry-branch-refused-in-range-displacement[direct]".to_string(), format!("function {:#x}, trampoline {:#x} (displacement {:+#x}) was refused although B can encode it", func, jit, disp)));
                break;
            }
            (Ok(()), false) => {
                out.violations.push(("out-of-range-displacement-not-refused[direct]".to_string(), format!("function {:#x}, trampoline {:#x} (displacement {:+#x}) is beyond the reach of B but was accepted; entry bytes {:02x?}", func, jit, disp, &now[(*func - base) as usize..(*func - base) as usize + 12])));
                break;
            }
            (Err(m), false) => {
                out.refused += 1;
                if now != pristine {
                    let o = (*func - base) as usize;
                    out.violations.push(("out-of-range-displacement-refused-after-writing[direct]".to_string(), format!("function {:#x}, trampoline {:#x} (displacement {:+#x}): refused ({m:?}) but the entry was already overwritten: {:02x?} (originally {:02x?})", func, jit, disp, &now[o..o + 12], &pristine[o..o + 12])));
                    break;
                }
            }
        }
    }
    out
}

pub struct LjOutcome {
    pub violations: Vec<(String, String)>,
    pub digest: u64,
    pub pairs: u64,
    pub long_forms: u64,
    pub skipped: bool,
    pub refused: u64,
}

pub fn execute(sc: &LjScenario) -> LjOutcome {
    if sc.profile == "C15B" {
        return execute_b(sc);
    }
    let mut out = LjOutcome { violations: Vec::new(), digest: 0x15, pairs: 0, long_forms: 0, skipped: false, refused: 0 };
    for (pc, target) in &sc.pairs {
        let (pcc, tgt) = (*pc as usize, *target as usize);
        let words = match std::panic::catch_unwind(move || ipp_aarch64_macos::__verif_long_jump(pcc, tgt)) {
            Ok(Some(w)) => w,
            Ok(None) => {
                out.skipped = true;
                return out;
            }
            Err(_) => {
                // refused (panic): legitimate only for a pair no B / ADRP+ADD can encode
                let page_diff = ((*target & !0xFFF) as i64 - (*pc & !0xFFF) as i64) >> 12;
                let encodable = (-(1i64 << 20)..(1i64 << 20)).contains(&page_diff);
                out.refused += 1;
                if encodable {
                    out.violations.push(("macos-long-jump-refused-encodable-pair".to_string(), format!("pc {:#x} target {:#x}: refused although ADRP can encode the page displacement {page_diff}", pc, target)));
                    break;
                }
                continue;
            }
        };
        out.pairs += 1;
        if words.len() > 1 {
            out.long_forms += 1;
        }
        let ps = 0x4000u64;
        let mut w = World::new(ps);
        let base = pc & !(ps - 1);
        let mut data = vec![0u8; 2 * ps as usize];
        for (i, wd) in words.iter().enumerate() {
            let off = (pc - base) as usize + 4 * i;
            data[off..off + 4].copy_from_slice(&wd.to_le_bytes());
            out.digest = out.digest.rotate_left(7) ^ *wd as u64;
        }
        w.map_fixed(base, 2 * ps, PROT_R | PROT_X, Owner::Text, Some(data));
        let end = pc + 4 * words.len() as u64;
        let x = interp::run_a64(&w, *pc, &[(*pc, end)], Some(*target), 16);
        let bad_regs = x.written & !0x3FE00;
        if x.error.is_some() || x.returned || x.final_pc != *target {
            let tag = if words.len() == 1 { "macos-entry-direct-branch-misses-target" } else { "macos-long-jump-misses-target" };
            out.violations.push((
                tag.to_string(),
                format!("pc {:#x} target {:#x} (displacement {:+#x}): emitted {:08x?} leads to {:#x} (error {:?})", pc, target, *target as i128 - *pc as i128, words, x.final_pc, x.error),
            ));
            break;
        }
        if bad_regs != 0 {
            out.violations.push(("macos-long-jump-clobbers-register".to_string(), format!("pc {:#x} target {:#x}: registers written mask {:#x}", pc, target, x.written)));
            break;
        }
    }
    out
}
