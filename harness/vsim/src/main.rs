//! vsim — runner for engine S scenarios (transplanted injector against the simulated OS).
//!
//!   vsim run --profile C02 --variants a,b --seed 1 --count N --shard i/n
//!   vsim replay FILE
//!   vsim gen --profile P --variant V --seed S --index I

#[path = "../../vnative/src/contain.rs"]
mod contain;
mod exec;
mod longjump;
mod scenario;

use scenario::SimScenario;
use serde_json::json;
use std::collections::{BTreeMap, BTreeSet};

fn arg<'a>(args: &'a [String], name: &str) -> Option<&'a str> {
    args.iter().position(|a| a == name).and_then(|i| args.get(i + 1)).map(|s| s.as_str())
}

fn fnv(s: &str) -> u64 {
    let mut h = 0xcbf2_9ce4_8422_2325u64;
    for b in s.bytes() {
        h ^= b as u64;
        h = h.wrapping_mul(0x100_0000_01b3);
    }
    h
}

fn mix(a: u64, b: u64) -> u64 {
    let mut s = a ^ b.wrapping_mul(0x9E37_79B9_7F4A_7C15);
    simos::rng::splitmix64(&mut s)
}

fn check_host_layout() {
    // every host mapping must lie inside the range simos treats as host memory
    let maps = std::fs::read_to_string("/proc/self/maps").unwrap_or_default();
    for line in maps.lines() {
        if line.contains("[vsyscall]") {
            continue;
        }
        let r = line.split_whitespace().next().unwrap_or("");
        let mut it = r.split('-');
        let s = u64::from_str_radix(it.next().unwrap_or("0"), 16).unwrap_or(0);
        let e = u64::from_str_radix(it.next().unwrap_or("0"), 16).unwrap_or(0);
        if s < scenario::HOST_LO || e > scenario::HOST_HI {
            println!("HARNESS-ERROR vsim: host mapping {line} outside the assumed host range");
            std::process::exit(2);
        }
    }
}

/// Execute in a forked child (used after a worker died, to pin the scenario): a child that dies by
/// SIGABRT is an observation — the code under test panicked inside a destructor during unwinding,
/// which in the real process is an abort; any other signal means the tree bypassed a simulation
/// seam and this scenario cannot be decided.
fn execute_contained(sc: &SimScenario) -> Result<exec::Outcome, String> {
    let scc = sc.clone();
    let end = contain::run_contained(45, move || {
        let out = exec::execute(&scc);
        json!({
            "violations": out.violations.iter().map(|v| json!({"tag": v.tag, "props": v.props, "detail": v.detail})).collect::<Vec<_>>(),
            "digest": format!("{:016x}", out.digest),
            "events": out.events, "installs_ok": out.installs_ok, "installs_refused": out.installs_refused, "interp_steps": out.interp_steps,
            "probes": out.probes, "faults": out.faults,
        })
    });
    match end {
        contain::ChildEnd::Report(v) => {
            let mut out = exec::Outcome::default();
            out.digest = u64::from_str_radix(v["digest"].as_str().unwrap_or("0"), 16).unwrap_or(0);
            out.events = v["events"].as_u64().unwrap_or(0);
            out.installs_ok = v["installs_ok"].as_u64().unwrap_or(0);
            out.installs_refused = v["installs_refused"].as_u64().unwrap_or(0);
            out.interp_steps = v["interp_steps"].as_u64().unwrap_or(0);
            for (key, acc) in [("probes", &mut out.probes), ("faults", &mut out.faults)] {
                if let Some(o) = v[key].as_object() {
                    for (k, x) in o {
                        acc.insert(k.clone(), x.as_u64().unwrap_or(0));
                    }
                }
            }
            if let Some(vs) = v["violations"].as_array() {
                for x in vs {
                    let props: Vec<&'static str> = x["props"].as_array().map(|a| a.iter().filter_map(|p| p.as_str()).map(|p| exec::intern_prop(p)).collect()).unwrap_or_default();
                    out.violations.push(exec::Violation { tag: x["tag"].as_str().unwrap_or("").to_string(), props, detail: x["detail"].as_str().unwrap_or("").to_string() });
                }
            }
            Ok(out)
        }
        contain::ChildEnd::Signal(s) if s == libc::SIGABRT => {
            let mut out = exec::Outcome::default();
            out.digest = 0xAB0;
            out.installs_ok = 1;
            out.violations.push(exec::Violation {
                tag: "process-abort[panic inside a destructor during unwinding]".into(),
                props: vec!["C05", "C02"],
                detail: "the simulated process aborted (SIGABRT): the code under test raised a second panic from a destructor while unwinding — restoration did not complete and the process would have been killed".into(),
            });
            Ok(out)
        }
        contain::ChildEnd::Signal(s) if s == libc::SIGALRM => {
            let mut out = exec::Outcome::default();
            out.digest = 0xA1A;
            out.installs_ok = 1;
            out.violations.push(exec::Violation {
                tag: "operation-never-returns[watchdog]".into(),
                props: vec!["C11", "C01", "C02"],
                detail: "an installation or scope exit did not return within the simulated-run watchdog (the full 2 GiB window scan takes about a second): it neither succeeded nor failed with a panic".into(),
            });
            Ok(out)
        }
        contain::ChildEnd::Signal(s) => Err(format!("worker killed by {} (the tree touches simulated memory outside the seams)", contain::signal_name(s))),
        contain::ChildEnd::Exit(c) => Err(format!("worker exit {c}")),
        contain::ChildEnd::NoReport => Err("worker produced no report".into()),
    }
}

fn viol_json(v: &exec::Violation) -> serde_json::Value {
    json!({"tag": v.tag, "props": v.props, "detail": v.detail})
}

/// Re-exec with ASLR disabled: the arm variant embeds the (host) address of its boolean helper
/// functions in the bytes it writes, so the event log must not depend on where the image lands.
fn ensure_no_aslr() {
    const ADDR_NO_RANDOMIZE: libc::c_ulong = 0x0040000;
    unsafe {
        let cur = libc::personality(0xffff_ffff);
        if cur >= 0 && (cur as libc::c_ulong) & ADDR_NO_RANDOMIZE == 0 {
            if libc::personality(cur as libc::c_ulong | ADDR_NO_RANDOMIZE) < 0 {
                return;
            }
            let exe = std::ffi::CString::new("/proc/self/exe").unwrap();
            let args: Vec<std::ffi::CString> = std::env::args().map(|a| std::ffi::CString::new(a).unwrap()).collect();
            let mut ptrs: Vec<*const libc::c_char> = args.iter().map(|a| a.as_ptr()).collect();
            ptrs.push(std::ptr::null());
            libc::execv(exe.as_ptr(), ptrs.as_ptr());
        }
    }
}

fn main() {
    ensure_no_aslr();
    let args: Vec<String> = std::env::args().collect();
    if std::env::var("VSIM_TRACE").is_err() {
        std::panic::set_hook(Box::new(|_| {}));
    }
    check_host_layout();
    match args.get(1).map(|s| s.as_str()) {
        Some("gen") => {
            let sc = scenario::generate(
                arg(&args, "--profile").unwrap(),
                arg(&args, "--variant").unwrap(),
                arg(&args, "--seed").unwrap_or("1").parse().unwrap(),
                arg(&args, "--index").unwrap_or("0").parse().unwrap(),
            );
            println!("{}", serde_json::to_string_pretty(&sc).unwrap());
        }
        Some("dump-traces") => {
            // interpreter traces (address + bytes of every executed instruction) for cross-validation
            let profile = arg(&args, "--profile").unwrap().to_string();
            let variant = arg(&args, "--variants").unwrap().to_string();
            let seed: u64 = arg(&args, "--seed").unwrap_or("1").parse().unwrap();
            let count: u64 = arg(&args, "--count").unwrap().parse().unwrap();
            exec::TRACES.with(|t| *t.borrow_mut() = Some(Vec::new()));
            for idx in 0..count {
                let sc = scenario::generate(&profile, &variant, seed, idx);
                if exec::validate(&sc).is_ok() {
                    let _ = exec::execute(&sc);
                }
            }
            let traces = exec::TRACES.with(|t| t.borrow_mut().take().unwrap());
            let v: Vec<serde_json::Value> = traces
                .iter()
                .map(|t| json!({"arch": t.arch, "thumb_entry": t.thumb_entry, "final_pc": t.final_pc,
                    "insns": t.insns.iter().map(|(a, b)| json!([a, b.iter().map(|x| format!("{x:02x}")).collect::<Vec<_>>().join("")])).collect::<Vec<_>>()}))
                .collect();
            println!("{}", json!(v));
        }
        Some("replay") => {
            let contained = args.iter().any(|a| a == "--contained") || true;
            let _ = contained;
            let text = std::fs::read_to_string(&args[2]).expect("read replay file");
            let v: serde_json::Value = serde_json::from_str(&text).expect("parse replay file");
            let scv = if v.get("scenario").is_some() { v["scenario"].clone() } else { v };
            if scv["profile"] == "C15L" || scv["profile"] == "C15B" {
                let sc: longjump::LjScenario = serde_json::from_value(scv).expect("C15L scenario");
                let o = longjump::execute(&sc);
                println!("{}", json!({"violations": o.violations.iter().map(|(t, d)| json!({"tag": t, "props": ["C15"], "detail": d})).collect::<Vec<_>>(), "digest": format!("{:016x}", o.digest)}));
                return;
            }
            let sc: SimScenario = match serde_json::from_value(scv) {
                Ok(s) => s,
                Err(e) => {
                    println!("{}", json!({"invalid": format!("{e}")}));
                    return;
                }
            };
            if let Err(e) = exec::validate(&sc) {
                println!("{}", json!({"invalid": e}));
                return;
            }
            // replays are always contained: a scenario that kills the worker must replay as such
            let out = match execute_contained(&sc) {
                Ok(o) => o,
                Err(e) => {
                    println!("{}", json!({"violations": [], "undecided": e}));
                    return;
                }
            };
            println!(
                "{}",
                json!({
                    "violations": out.violations.iter().map(viol_json).collect::<Vec<_>>(),
                    "digest": format!("{:016x}", out.digest),
                    "events": out.events,
                    "installs_ok": out.installs_ok,
                    "installs_refused": out.installs_refused,
                })
            );
        }
        Some("run") => {
            let profile = arg(&args, "--profile").unwrap().to_string();
            let variants: Vec<String> = arg(&args, "--variants").unwrap().split(',').map(|s| s.to_string()).collect();
            let seed: u64 = arg(&args, "--seed").unwrap_or("1").parse().unwrap();
            let count: u64 = arg(&args, "--count").unwrap().parse().unwrap();
            let shard = arg(&args, "--shard").unwrap_or("0/1");
            let (si, sn) = {
                let mut it = shard.split('/');
                (it.next().unwrap().parse::<u64>().unwrap(), it.next().unwrap().parse::<u64>().unwrap())
            };
            let want_prop = arg(&args, "--prop").map(|s| s.to_string());
            if profile == "C15L" || profile == "C15B" {
                let mut evaluations = 0u64;
                let mut pairs = 0u64;
                let mut long_forms = 0u64;
                let mut refused_pairs = 0u64;
                let mut digest_sum = 0u64;
                let mut distinct: BTreeSet<u64> = BTreeSet::new();
                let mut violations = Vec::new();
                let mut samples = Vec::new();
                let mut skipped = 0u64;
                let mut idx = si;
                while idx < count {
                    let sc = if profile == "C15B" { longjump::generate_b(seed, idx) } else { longjump::generate(seed, idx) };
                    let o = longjump::execute(&sc);
                    if o.skipped {
                        skipped += 1;
                        idx += sn;
                        continue;
                    }
                    evaluations += 1;
                    pairs += o.pairs;
                    long_forms += o.long_forms;
                    refused_pairs += o.refused;
                    digest_sum = digest_sum.wrapping_add(mix(idx, o.digest));
                    for (a, b) in &sc.pairs {
                        distinct.insert(mix(*a, *b));
                    }
                    for (t, d) in &o.violations {
                        if violations.len() < 4 {
                            violations.push(json!({"index": idx, "violation": {"tag": t, "props": ["C15"], "detail": d}, "digest": format!("{:016x}", o.digest), "scenario": sc}));
                        }
                    }
                    if samples.is_empty() && si == 0 {
                        let mut small = sc.clone();
                        small.pairs.truncate(4);
                        samples.push(json!(small));
                    }
                    idx += sn;
                }
                let mut pv = BTreeMap::new();
                pv.insert(if profile == "C15B" { "aarch64_linux".to_string() } else { "aarch64_macos".to_string() }, evaluations);
                let mut probes = BTreeMap::new();
                probes.insert("macos_long_form_adrp_add_br", long_forms);
                probes.insert("pc_target_pairs", pairs);
                probes.insert("pairs_refused_as_not_encodable", refused_pairs);
                println!("{}", json!({"evaluations": evaluations, "nontrivial": evaluations, "distinct": distinct.iter().take(500000).map(|h| format!("{h:x}")).collect::<Vec<_>>(),
                    "faults": {}, "probes": probes, "per_variant": pv, "events": 0, "installs_ok": 0, "installs_refused": 0, "interp_steps": pairs * 3,
                    "digest_sum": format!("{digest_sum:016x}"), "violations": violations, "other_prop_violations": {}, "samples": samples,
                    "extra": {"long_jump_subcheck_skipped_scenarios": skipped}}));
                return;
            }
            let contained = args.iter().any(|a| a == "--contained");
            let mut undecided = 0u64;
            let mut fatal_outcomes = 0u32;
            let mut undecided_why = String::new();
            let mut evaluations = 0u64;
            let mut skipped = 0u64;
            let mut nontrivial = 0u64;
            let mut distinct: BTreeSet<u64> = BTreeSet::new();
            let mut faults: BTreeMap<String, u64> = BTreeMap::new();
            let mut probes: BTreeMap<String, u64> = BTreeMap::new();
            let mut per_variant: BTreeMap<String, u64> = BTreeMap::new();
            let mut events = 0u64;
            let mut installs_ok = 0u64;
            let mut installs_refused = 0u64;
            let mut interp_steps = 0u64;
            let mut digest_sum = 0u64;
            let mut violations = Vec::new();
            let mut per_tag: BTreeMap<String, u32> = BTreeMap::new();
            let mut other_prop_violations: BTreeMap<String, u64> = BTreeMap::new();
            let mut samples = Vec::new();
            let mut idx = si;
            while idx < count {
                let variant = &variants[(idx % variants.len() as u64) as usize];
                let sc = scenario::generate(&profile, variant, seed, idx);
                if exec::validate(&sc).is_err() {
                    // the generator produced an ill-formed layout (rare): not a scenario
                    skipped += 1;
                    idx += sn;
                    continue;
                }
                let out = if contained {
                    match execute_contained(&sc) {
                        Ok(o) => o,
                        Err(e) => {
                            undecided += 1;
                            undecided_why = format!("scenario {idx}: {e}");
                            idx += sn;
                            continue;
                        }
                    }
                } else {
                    unsafe { libc::alarm(90) };
                    let o = exec::execute(&sc);
                    unsafe { libc::alarm(0) };
                    o
                };
                evaluations += 1;
                *per_variant.entry(variant.clone()).or_insert(0) += 1;
                events += out.events;
                installs_ok += out.installs_ok;
                installs_refused += out.installs_refused;
                interp_steps += out.interp_steps;
                digest_sum = digest_sum.wrapping_add(mix(idx, out.digest));
                let fired = !out.faults.is_empty();
                if out.installs_ok > 0 || fired {
                    nontrivial += 1;
                    if distinct.len() < 2_000_000 {
                        distinct.insert(fnv(&format!("{}|{}", variant, sc.classes.join(","))));
                    }
                }
                for (k, v) in &out.faults {
                    *faults.entry(k.clone()).or_insert(0) += v;
                }
                for (k, v) in &out.probes {
                    *probes.entry(k.clone()).or_insert(0) += v;
                }
                for v in &out.violations {
                    let mine = match &want_prop {
                        Some(p) => v.props.iter().any(|x| x == p),
                        None => true,
                    };
                    if mine {
                        let key = format!("{}|{}", variant, v.tag);
                        let n = per_tag.entry(key).or_insert(0u32);
                        *n += 1;
                        if *n <= 2 && violations.len() < 40 {
                            violations.push(json!({"index": idx, "violation": viol_json(v), "digest": format!("{:016x}", out.digest), "scenario": sc}));
                        }
                    } else {
                        *other_prop_violations.entry(format!("{}:{}", v.props.join("+"), v.tag)).or_insert(0) += 1;
                    }
                }
                if contained && out.violations.iter().any(|v| v.tag.starts_with("operation-never-returns") || v.tag.starts_with("process-abort")) {
                    fatal_outcomes += 1;
                }
                if contained && fatal_outcomes >= 2 {
                    // enough evidence; every further hanging scenario would cost a watchdog period
                    break;
                }
                if samples.len() < 2 && out.installs_ok > 0 && si == 0 {
                    samples.push(json!(sc));
                }
                idx += sn;
            }
            println!(
                "{}",
                json!({
                    "evaluations": evaluations,
                    "nontrivial": nontrivial,
                    "distinct": distinct.iter().map(|h| format!("{h:x}")).collect::<Vec<_>>(),
                    "faults": faults,
                    "probes": probes,
                    "per_variant": per_variant,
                    "events": events,
                    "installs_ok": installs_ok,
                    "installs_refused": installs_refused,
                    "interp_steps": interp_steps,
                    "digest_sum": format!("{digest_sum:016x}"),
                    "violations": violations,
                    "other_prop_violations": other_prop_violations,
                    "samples": samples,
                    "extra": {"scenarios_skipped_ill_formed": skipped, "scenarios_undecided_worker_crash": undecided},
                    "undecided": undecided,
                    "undecided_why": undecided_why,
                })
            );
        }
        _ => {
            eprintln!("usage: vsim run|replay|gen ...");
            std::process::exit(2);
        }
    }
}
