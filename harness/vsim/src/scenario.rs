//! Materialised scenarios for engine S: everything the executor does is a pure function of a
//! `SimScenario` value (which is also the replay file), and a scenario is a pure function of
//! (VERIF_SEED, profile, index).

use serde::{Deserialize, Serialize};
use simos::rng::Rng;

#[derive(Serialize, Deserialize, Clone, Debug, PartialEq)]
pub struct PolicySpec {
    pub hint: String, // down | up | ignore | win
    pub fallback: Vec<u64>,
    pub topdown_base: u64,
    pub no_fallback: bool,
    pub fail_mmap: Vec<u64>,
    pub fail_mmap_all: bool,
    pub fail_mprotect: Vec<u64>,
    pub mmap_min_addr: u64,
    pub user_limit: u64,
}

#[derive(Serialize, Deserialize, Clone, Debug, PartialEq)]
pub struct TextRegion {
    pub addr: u64,
    pub pages: u64,
    pub fill_seed: u64,
}

#[derive(Serialize, Deserialize, Clone, Debug, PartialEq)]
pub struct Install {
    pub target: usize,
    /// raw | checked | unchecked | boolean
    pub kind: String,
    pub fake: u64,
    pub value: bool,
}

#[derive(Serialize, Deserialize, Clone, Debug, PartialEq)]
pub struct Lifetime {
    pub ops: Vec<Install>,
    pub exit_panic: bool,
    /// what the rest of the process did since the previous lifetime ended:
    /// "reprotect_text" (code pages are r-x again, e.g. a W^X-enforcing runtime or a reloaded
    /// library) | "occupy_freed" (somebody else now owns the pages the previous lifetime's
    /// trampolines lived in)
    #[serde(default)]
    pub pre: Vec<String>,
    /// the k-th mprotect/VirtualProtect made while the injector goes away is refused once (only
    /// for lifetimes that end by a plain drop; the scenario ends with this lifetime)
    #[serde(default)]
    pub exit_mprotect_fail: Option<u64>,
    /// the whole lifetime (creation, installations, scope exit) runs inside a destructor while
    /// another panic is unwinding the thread (a fixture that uses its own injector in `Drop`)
    #[serde(default)]
    pub inside_unwind: bool,
}

#[derive(Serialize, Deserialize, Clone, Debug, PartialEq)]
pub struct SimScenario {
    pub engine: String,
    pub profile: String,
    pub variant: String,
    pub seed: u64,
    pub index: u64,
    pub page_size: u64,
    pub policy: PolicySpec,
    pub text: Vec<TextRegion>,
    /// occupied reservations (start, len), PROT_NONE, not owned by the injector
    pub foreign: Vec<(u64, u64)>,
    /// entry addresses (arm: bit 0 = Thumb)
    pub targets: Vec<u64>,
    /// entry addresses of functions that are never named in an installation (neighbours)
    pub bystanders: Vec<u64>,
    /// (target index, bystander index): the target's original code is a tail-call forwarder
    /// (`jmp bystander` / `b bystander`)
    #[serde(default)]
    pub forwarders: Vec<(usize, usize)>,
    /// distance between consecutive function entries = extent of one function
    #[serde(default = "default_pitch")]
    pub pitch: u64,
    /// the page right after the text is a readable mapping nobody can re-protect or write (a
    /// read-only shared file mapping), if that page is free
    #[serde(default)]
    pub immutable_after_text: bool,
    /// the program text is mapped readable, WRITABLE and executable from the start (JIT-emitted
    /// code, an image section linked writable, a page another tool left writable): asking for
    /// that protection changes nothing and the OS reports the old protection as equal to the new
    #[serde(default)]
    pub text_rwx: bool,
    /// AArch64 Linux: the program was built with branch protection and its text is mapped with
    /// PROT_BTI (guarded pages): an indirect call (`blr`) must land on a BTI landing pad.  A plain
    /// `mprotect(RWX)` takes the guarded bit away (that is what the unchanged tree does); a request
    /// that includes PROT_BTI keeps it.
    #[serde(default)]
    pub text_bti: bool,
    pub lifetimes: Vec<Lifetime>,
    /// free-text classes used for the distinct-case measure
    pub classes: Vec<String>,
}

#[derive(Clone, Copy, PartialEq, Eq, Debug)]
pub enum Arch {
    X86_64,
    A64,
    Arm,
}
#[derive(Clone, Copy, PartialEq, Eq, Debug)]
pub enum Os {
    Linux,
    Macos,
    Windows,
}

pub fn variant_arch_os(v: &str) -> (Arch, Os) {
    match v {
        "x86_64_linux" => (Arch::X86_64, Os::Linux),
        "aarch64_linux" => (Arch::A64, Os::Linux),
        "arm_linux" => (Arch::Arm, Os::Linux),
        "aarch64_macos" => (Arch::A64, Os::Macos),
        "x86_64_macos" => (Arch::X86_64, Os::Macos),
        "x86_64_windows" => (Arch::X86_64, Os::Windows),
        "aarch64_windows" => (Arch::A64, Os::Windows),
        _ => panic!("unknown variant {v}"),
    }
}

/// the allocator's search radius as the source states it (used only to *shape* layouts; the
/// oracles never rely on it)
pub fn window(arch: Arch, os: Os) -> u64 {
    match (arch, os) {
        (Arch::Arm, _) => 0,
        (_, Os::Linux) => 0x800_0000,
        (_, Os::Macos) => 0x8000_0000,
        (Arch::A64, Os::Windows) => 0x800_0000,
        (Arch::X86_64, Os::Windows) => 0x8000_0000,
    }
}

pub const HOST_LO: u64 = simos::world::HOST_LO;
pub const HOST_HI: u64 = simos::world::HOST_HI;

fn default_policy(arch: Arch, os: Os) -> PolicySpec {
    let user_limit = match arch {
        Arch::Arm => 0xC000_0000,
        _ => 0x5000_0000_0000,
    };
    PolicySpec {
        hint: if os == Os::Windows { "win".into() } else { "down".into() },
        fallback: vec![],
        topdown_base: match arch {
            Arch::Arm => 0xB7FF_0000,
            _ => 0x4FFF_FFFF_0000,
        },
        no_fallback: false,
        fail_mmap: vec![],
        fail_mmap_all: false,
        fail_mprotect: vec![],
        mmap_min_addr: 0x1000,
        user_limit,
    }
}

pub struct LayoutOpts {
    pub n_targets: usize,
    pub n_bystanders: usize,
    /// force the first target's page offset class: None = seeded
    pub offset_class: Option<u32>,
    /// 0 low, 1 below-window, 2 mid, 3 high; None = seeded
    pub base_class: Option<u32>,
    /// 0 empty, 1 full, 2 full-except-one, 3 sparse; None = seeded
    pub hood_class: Option<u32>,
    pub page_size: u64,
}

pub fn default_pitch() -> u64 {
    16
}

/// Smallest function extent the unchanged entry patch fits in: `jmp rel32` (the trampoline is
/// always within rel32 reach of an 8-byte-aligned entry), three A64 words, `ldr ip; bx ip; .word`.
pub fn tight_pitch(arch: Arch) -> u64 {
    match arch {
        Arch::X86_64 => 8,
        Arch::A64 => 12,
        Arch::Arm => 12,
    }
}

pub struct Layout {
    pub immutable_after_text: bool,
    pub pitch: u64,
    pub text: Vec<TextRegion>,
    pub foreign: Vec<(u64, u64)>,
    pub targets: Vec<u64>,
    pub bystanders: Vec<u64>,
    pub classes: Vec<String>,
    /// the single free page of a full-except-one neighbourhood
    pub hole: Option<u64>,
    pub forwarders: Vec<(usize, usize)>,
}

fn align_of(arch: Arch) -> u64 {
    match arch {
        Arch::X86_64 => 1,
        Arch::A64 => 4,
        Arch::Arm => 2,
    }
}

/// Build a text area with targets and a neighbourhood around it.
pub fn gen_layout(rng: &mut Rng, arch: Arch, os: Os, pol: &PolicySpec, o: &LayoutOpts) -> Layout {
    let ps = o.page_size;
    let win = window(arch, os);
    let mut classes = Vec::new();
    let min_page = (pol.mmap_min_addr + ps - 1) / ps * ps;
    let text_pages = 3u64;
    // ---- base address of the text area
    let base_class = o.base_class.unwrap_or_else(|| rng.below(8).min(3) as u32);
    let base = match arch {
        Arch::Arm => match base_class {
            0 => min_page,
            1 => min_page + rng.below(0x1000) * ps,
            2 => (0x1_0000 + rng.below(0x7_0000) * 0x1000) / ps * ps,
            _ => (pol.user_limit - (text_pages + 1 + rng.below(64)) * ps) / ps * ps,
        },
        _ => match base_class {
            0 => min_page + rng.below(3) * ps,
            1 => (min_page + rng.below(win.max(ps) / ps) * ps).max(min_page),
            2 => (0x1000_0000 + rng.below(0x4_0000_0000) * 0x1000) / ps * ps,
            _ => (pol.user_limit - win - (text_pages + 2 + rng.below(1024)) * ps) / ps * ps,
        },
    };
    classes.push(format!("base{base_class}"));
    let gran = if os == Os::Windows { 0x10000 } else { ps };
    let base = if os == Os::Windows && rng.chance(3, 4) { base / gran * gran } else { base };
    let base = base.max(min_page);
    let text = vec![TextRegion { addr: base, pages: text_pages, fill_seed: rng.next_u64() }];
    // ---- first target offset inside the first page
    // functions packed as tightly as the entry patch allows, in a third of the layouts
    let tight = rng.chance(1, 3);
    let pitch = if tight { tight_pitch(arch) } else { 16 };
    if tight {
        classes.push("tight".into());
    }
    // x86-64, tight: entries are 8-byte aligned and never on an allocation granule, so that the
    // 5-byte form always reaches the trampoline (see tight_pitch)
    let fixup = |a: u64| -> u64 {
        if tight && arch == Arch::X86_64 {
            let a = a & !7;
            if a % 0x10000 == 0 {
                a + 8
            } else {
                a
            }
        } else {
            a
        }
    };
    let al = align_of(arch);
    let oc = o.offset_class.unwrap_or_else(|| rng.below(6) as u32);
    let off = match oc {
        0 => 0,
        1 => al,
        2 => ps - al * (1 + rng.below(16 / al)),  // within the last 16 bytes of the page
        3 => ps - al * (1 + rng.below(4 / al.min(4)).min(3)), // last 4 bytes: the branch spans
        4 => rng.below(ps / al) * al,
        _ => (rng.below(ps / 16) * 16) + if arch == Arch::Arm { 2 * rng.below(2) } else { 0 },
    } % (ps + ps / 2);
    classes.push(format!("off{oc}"));
    let mut targets = Vec::new();
    let mut bystanders = Vec::new();
    let mut used_last_slot = false;
    let mut next = fixup(base + off);
    let thumbish = |rng: &mut Rng, a: u64| -> u64 {
        if arch == Arch::Arm {
            // ARM state needs 4-byte alignment; Thumb 2-byte
            if a % 4 == 0 && rng.chance(1, 3) {
                a
            } else {
                a | 1
            }
        } else {
            a
        }
    };
    let total = o.n_targets + o.n_bystanders;
    // interleave bystanders between targets at 16-byte pitch
    let mut roles: Vec<bool> = (0..total).map(|i| i < o.n_targets).collect();
    for i in (1..roles.len()).rev() {
        let j = rng.below(i as u64 + 1) as usize;
        roles.swap(i, j);
    }
    if !roles.is_empty() && !roles[0] {
        // keep the first slot a target so the offset class applies to a target
        if let Some(p) = roles.iter().position(|r| *r) {
            roles.swap(0, p);
        }
    }
    for is_target in roles {
        let a = thumbish(rng, next);
        if is_target {
            targets.push(a);
        } else {
            bystanders.push(a);
        }
        // next slot: 16-byte pitch, sometimes a jump to another place in the area
        next = if tight && rng.chance(1, 8) {
            // the last function of the text area: nothing mapped behind it in some neighbourhoods
            used_last_slot = true;
            base + text_pages * ps - pitch
        } else if rng.chance(1, 5) {
            let lim = (text_pages - 1) * ps;
            fixup(base + rng.below(lim / 16) * 16 + if arch == Arch::Arm { 2 * rng.below(2) } else { 0 })
        } else {
            fixup((next & !1) + pitch)
        };
        // avoid overlapping slots
        let clash = |x: u64, v: &Vec<u64>| v.iter().any(|t| ((t & !1) as i64 - (x & !1) as i64).abs() < pitch as i64);
        let mut guard = 0;
        while (clash(next, &targets) || clash(next, &bystanders) || next + pitch > base + text_pages * ps) && guard < 64 {
            next = fixup(base + rng.below((text_pages - 1) * ps / 16) * 16);
            guard += 1;
        }
    }
    // ---- neighbourhood
    let mut foreign = Vec::new();
    let mut hole = None;
    let hc = if win == 0 { 0 } else { o.hood_class.unwrap_or_else(|| rng.below(4) as u32) };
    let t0 = targets.first().copied().unwrap_or(base) & !1;
    let tpage = t0 / ps * ps;
    let text_end = base + text_pages * ps;
    let lo = tpage.saturating_sub(win + 4 * ps).max(min_page);
    let hi = (tpage + win + 5 * ps).min(pol.user_limit);
    match hc {
        0 => classes.push("hood-empty".into()),
        1 => {
            if lo < base {
                foreign.push((lo, base - lo));
            }
            if text_end < hi {
                foreign.push((text_end, hi - text_end));
            }
            classes.push("hood-full".into());
        }
        2 => {
            // one free page at a chosen displacement from the target's page
            let dc = rng.below(8);
            let pages = win / ps;
            let d: i64 = match dc {
                0 => -(pages as i64),
                1 => -(pages as i64) + 1,
                2 => pages as i64,
                3 => pages as i64 - 1,
                4 => -(1 + rng.below(4) as i64),
                5 => (text_pages + rng.below(4)) as i64,
                6 => pages as i64 + 1,
                _ => rng.range(0, 2 * pages) as i64 - pages as i64,
            };
            let mut h = tpage as i64 + d * ps as i64;
            if os == Os::Windows {
                // VirtualAlloc only ever returns granule-aligned addresses
                h = h / gran as i64 * gran as i64;
            }
            // keep the hole outside the text area and above the minimum address
            if h < min_page as i64 {
                h = min_page as i64;
            }
            let mut h = h as u64;
            if h >= base && h < text_end {
                h = text_end;
            }
            if h + ps > pol.user_limit {
                h = pol.user_limit - ps;
            }
            hole = Some(h);
            let mut segs: Vec<(u64, u64)> = Vec::new();
            if lo < base {
                segs.push((lo, base));
            }
            if text_end < hi {
                segs.push((text_end, hi));
            }
            for (s, e) in segs {
                if h >= s && h < e {
                    if s < h {
                        foreign.push((s, h - s));
                    }
                    if h + ps < e {
                        foreign.push((h + ps, e - h - ps));
                    }
                } else {
                    foreign.push((s, e - s));
                }
            }
            classes.push(format!("hood-hole{dc}"));
        }
        _ => {
            let n = 1 + rng.below(8);
            let mut blobs: Vec<(u64, u64)> = Vec::new();
            for _ in 0..n {
                let big = rng.chance(1, 3);
                let len = (1 + rng.below(if big { win / ps } else { 64 })) * ps;
                let start = lo + rng.below((hi - lo) / ps) * ps;
                let end = (start + len).min(hi);
                if start >= end {
                    continue;
                }
                // skip the text area and existing blobs
                if start < text_end && end > base {
                    continue;
                }
                if blobs.iter().any(|(s, l)| start < s + l && end > *s) {
                    continue;
                }
                blobs.push((start, end - start));
            }
            blobs.sort();
            foreign = blobs;
            classes.push("hood-sparse".into());
        }
    }
    // some targets are tail-call forwarders to a bystander (their first instruction is a jump)
    let mut forwarders = Vec::new();
    if arch != Arch::Arm && !bystanders.is_empty() {
        for ti in 0..targets.len() {
            if rng.chance(1, 6) {
                let bi = rng.below(bystanders.len() as u64) as usize;
                forwarders.push((ti, bi));
            }
        }
        if !forwarders.is_empty() {
            classes.push("forwarder-target".into());
        }
    }
    let immutable_after_text = used_last_slot && rng.chance(1, 2);
    if immutable_after_text {
        classes.push("immutable-page-after-text".into());
    }
    Layout { immutable_after_text, pitch, text, foreign, targets, bystanders, classes, hole, forwarders }
}

/// A fake address for x86-64 / A64: anywhere in the 64-bit space, biased to the rel32 boundary
/// around the predicted trampoline position `near`.
pub fn gen_fake64(rng: &mut Rng, near: Option<u64>, classes: &mut Vec<String>) -> u64 {
    let c = rng.below(10);
    let v = match (c, near) {
        (0..=3, Some(j)) => {
            // jit + 5 + {i32::MIN-1, i32::MIN, i32::MAX, i32::MAX+1} +- small
            let b: i128 = *rng.pick(&[i32::MIN as i128 - 1, i32::MIN as i128, i32::MAX as i128, i32::MAX as i128 + 1]);
            let jitter = rng.range(0, 4) as i128 - 2;
            classes.push("fake-rel32-edge".into());
            (j as i128 + 5 + b + if rng.chance(1, 2) { 0 } else { jitter }) as u64
        }
        (4, Some(j)) => {
            classes.push("fake-near".into());
            j.wrapping_add(rng.range(0, 0x10_0000)).wrapping_sub(0x8_0000)
        }
        (5, _) => {
            classes.push("fake-low".into());
            1 + rng.below(0x1_0000)
        }
        (6, _) => {
            classes.push("fake-highhalf".into());
            0xFFFF_8000_0000_0000 | rng.next_u64()
        }
        (7, _) => {
            classes.push("fake-noncanonical".into());
            rng.next_u64() | 0x0001_0000_0000_0000
        }
        (8, _) => {
            classes.push("fake-hostlike".into());
            0x5555_5555_0000 + rng.below(0x1000_0000)
        }
        _ => {
            classes.push("fake-any".into());
            rng.next_u64()
        }
    };
    if v == 0 {
        1
    } else {
        v
    }
}

/// A fake that lives in the same image as the targets (what an ordinary test has): in the third
/// text page, which holds no function entry except possibly the very last slot; a third of them
/// start exactly on the page boundary.
pub fn fake_in_image(rng: &mut Rng, l: &Layout, ps: u64, arch: Arch) -> u64 {
    let page = l.text[0].addr + 2 * ps;
    let mut a = if rng.chance(1, 3) { page } else { page + 16 * rng.below(64) };
    // never a function of the scenario itself (a run of functions may reach into this page)
    while l.targets.iter().chain(l.bystanders.iter()).any(|t| ((t & !1) as i64 - a as i64).abs() < 16) {
        a += 16;
    }
    if arch == Arch::Arm && rng.chance(1, 2) {
        a | 1
    } else {
        a
    }
}

pub fn gen_fake32(rng: &mut Rng, classes: &mut Vec<String>) -> u64 {
    let c = rng.below(6);
    let v = match c {
        0 => 1 + rng.below(0x1_0000),
        1 => 0xFFFF_0000 + rng.below(0xFFFF),
        2 => rng.below(1 << 32) & !3,
        3 => (rng.below(1 << 32) & !3) | 1,
        _ => rng.below(1 << 32),
    } & 0xFFFF_FFFF;
    // a function pointer is either ARM (bits[1:0]=00) or Thumb (bit0=1)
    let v = if v & 1 == 0 { v & !3 } else { v };
    classes.push(if v & 1 == 1 { "fake-thumb".into() } else { "fake-arm".into() });
    if v == 0 {
        4
    } else {
        v
    }
}

fn page_size_for(rng: &mut Rng, arch: Arch, os: Os, vary: bool) -> u64 {
    match (arch, os) {
        (Arch::A64, Os::Macos) => 0x4000,
        (Arch::X86_64, Os::Macos) => 0x1000,
        (_, Os::Windows) => 0x1000,
        (Arch::A64, Os::Linux) if vary => *rng.pick(&[0x1000, 0x1000, 0x4000, 0x10000]),
        (Arch::X86_64, Os::Linux) if vary && rng.chance(1, 8) => *rng.pick(&[0x4000, 0x10000]),
        _ => 0x1000,
    }
}

fn kinds_for(arch: Arch) -> &'static [&'static str] {
    let _ = arch;
    &["raw", "checked", "unchecked", "boolean", "raw", "checked", "unchecked", "boolean", "counted"]
}

/// Where the linux-faithful kernel will put the first trampoline for a target, if the generator
/// can tell (used only to aim fakes at encoding boundaries).
fn predict_jit(l: &Layout, arch: Arch, os: Os, ps: u64, min_addr: u64) -> Option<u64> {
    if let Some(h) = l.hole {
        return Some(h);
    }
    let win = window(arch, os);
    if win == 0 || !l.foreign.is_empty() {
        return None;
    }
    let t = l.targets.first()? & !1;
    let start = t.saturating_sub(win);
    let mut p = start / ps * ps;
    if p < start || p < min_addr {
        p += ps;
        while p < min_addr {
            p += ps;
        }
    }
    Some(p)
}

pub fn generate(profile: &str, variant: &str, seed: u64, index: u64) -> SimScenario {
    let sseed = simos::rng::scenario_seed(seed, &format!("{profile}/{variant}"), index);
    let mut rng = Rng::new(sseed);
    let (arch, os) = variant_arch_os(variant);
    let mut pol = default_policy(arch, os);
    let mut classes: Vec<String> = Vec::new();
    let vary_ps = matches!(profile, "C11" | "C02" | "C03" | "C12" | "C17");
    let ps = page_size_for(&mut rng, arch, os, vary_ps);
    if ps > 0x1000 {
        pol.mmap_min_addr = if rng.chance(1, 2) { 0x1000 } else { 0x10000 };
    } else if rng.chance(1, 4) {
        pol.mmap_min_addr = 0x10000;
    }
    classes.push(format!("ps{:x}", ps));
    let mut opts = LayoutOpts { n_targets: 1, n_bystanders: 0, offset_class: None, base_class: None, hood_class: None, page_size: ps };
    let mut lifetimes: Vec<Lifetime> = Vec::new();

    // ---- kernel policy variations (buggify subset per run) for profiles that are about placement
    let buggify_kernel = |rng: &mut Rng, pol: &mut PolicySpec, classes: &mut Vec<String>, strong: bool| {
        let roll = rng.below(if strong { 12 } else { 60 });
        match roll {
            0 if pol.hint != "win" => {
                pol.hint = "up".into();
                classes.push("k-hint-up".into());
            }
            1 if pol.hint != "win" => {
                pol.hint = "ignore".into();
                classes.push("k-hint-ignore".into());
            }
            2 => {
                pol.no_fallback = true;
                classes.push("k-no-fallback".into());
            }
            3 => {
                let n = 1 + rng.below(6);
                let mut v: Vec<u64> = (0..n)
                    .map(|_| {
                        let early = rng.chance(1, 2);
                        rng.below(if early { 8 } else { 70000 })
                    })
                    .collect();
                v.sort();
                v.dedup();
                pol.fail_mmap = v;
                classes.push("k-mmap-transient-fail".into());
            }
            4 => {
                pol.fail_mmap_all = true;
                classes.push("k-mmap-enomem".into());
            }
            _ => classes.push("k-faithful".into()),
        }
    };

    // mprotect faults: the first / the second mprotect call of an installation is refused (one-shot)
    let mprotect_faults = |rng: &mut Rng, pol: &mut PolicySpec, classes: &mut Vec<String>, opts: &mut LayoutOpts, n_ops: u64| {
        if rng.chance(1, 10) {
            let second = rng.chance(1, 2);
            let ord = rng.below(n_ops.max(1));
            pol.fail_mprotect = vec![if second { 3000 + ord } else { ord }];
            classes.push(if second { "k-mprotect-fail-second-call".into() } else { "k-mprotect-fail".into() });
        } else if rng.chance(1, 12) {
            // the entry straddles a page boundary and the second page can never be made writable
            pol.fail_mprotect = vec![2000, 2001];
            opts.offset_class = Some(*rng.pick(&[2, 3, 3]));
            classes.push("k-mprotect-second-page-2000".into());
        }
    };
    match profile {
        // ------------------------------------------------------------------------------ C01
        "C01" | "C13" | "C10" => {
            opts.n_targets = 1 + rng.below(2) as usize;
            opts.n_bystanders = rng.below(3) as usize;
            opts.hood_class = Some(*rng.pick(&[0, 0, 0, 0, 2, 2, 3, 3]));
            if rng.chance(1, 3) {
                opts.offset_class = Some(*rng.pick(&[2, 3, 3]));
            }
            buggify_kernel(&mut rng, &mut pol, &mut classes, false);
            if rng.chance(1, 25) {
                pol.fail_mprotect = vec![rng.below(3)]; // ordinal of the install whose mprotect is refused
                classes.push("k-mprotect-fail".into());
            } else if rng.chance(1, 25) {
                pol.fail_mprotect = vec![1000 + rng.below(3)]; // ... whose pages can never be made writable
                classes.push("k-mprotect-deny-page".into());
            } else if rng.chance(1, 12) {
                // ... whose second page can never be made writable / whose second mprotect call fails
                let base = *rng.pick(&[2000u64, 2000, 3000]);
                pol.fail_mprotect = vec![base, base + 1];
                opts.offset_class = Some(3);
                classes.push(format!("k-mprotect-second-page-{base}"));
            }
            let l = gen_layout(&mut rng, arch, os, &pol, &opts);
            let near = predict_jit(&l, arch, os, ps, pol.mmap_min_addr);
            let n_ops = 1 + rng.below(3) as usize;
            let mut ops = Vec::new();
            for _ in 0..n_ops {
                let kind = if profile == "C10" { "boolean" } else { *rng.pick(kinds_for(arch)) };
                let fake = if rng.chance(1, 6) {
                    classes.push("fake-in-image".into());
                    fake_in_image(&mut rng, &l, ps, arch)
                } else if arch == Arch::Arm {
                    gen_fake32(&mut rng, &mut classes)
                } else {
                    gen_fake64(&mut rng, near, &mut classes)
                };
                classes.push(format!("kind-{kind}"));
                ops.push(Install { target: rng.below(l.targets.len() as u64) as usize, kind: kind.into(), fake, value: rng.chance(1, 2) });
            }
            lifetimes.push(Lifetime { ops, exit_panic: rng.chance(1, 6), pre: Vec::new(), exit_mprotect_fail: None, inside_unwind: false });
            classes.extend(l.classes.iter().cloned());
            return finish(profile, variant, seed, index, ps, pol, l, lifetimes, classes);
        }
        // ------------------------------------------------------------------------------ histories
        "C02" | "C03" | "C12" | "C17" => {
            opts.n_targets = 2 + rng.below(5) as usize;
            opts.n_bystanders = 1 + rng.below(4) as usize;
            opts.hood_class = Some(if rng.chance(1, 25) { 2 } else { *rng.pick(&[0, 0, 0, 3, 3]) });
            // (C12 is about what stays mapped: refused requests for memory in the middle of a
            // placement scan are five times as frequent there)
            buggify_kernel(&mut rng, &mut pol, &mut classes, profile == "C12");
            let l = gen_layout(&mut rng, arch, os, &pol, &opts);
            // rarely: one lifetime that keeps several hundred fakes alive at once
            let mass = rng.chance(1, 400);
            if mass {
                classes.push("mass-installs".into());
            }
            let n_l = if mass { 1 } else { 1 + rng.below(4) as usize };
            for _ in 0..n_l {
                let n_ops = if mass { 345 + rng.below(80) as usize } else { rng.below(9) as usize };
                let mut ops = Vec::new();
                let mut counts = vec![0u32; l.targets.len()];
                for _ in 0..n_ops {
                    let kind = *rng.pick(kinds_for(arch));
                    let fake = if rng.chance(1, 4) {
                        classes.push("fake-in-image".into());
                        fake_in_image(&mut rng, &l, ps, arch)
                    } else if arch == Arch::Arm {
                        gen_fake32(&mut rng, &mut Vec::new())
                    } else {
                        gen_fake64(&mut rng, None, &mut Vec::new())
                    };
                    // repetition bias: half of the time re-use an already faked target
                    let t = if rng.chance(1, 2) && counts.iter().any(|c| *c > 0) {
                        let idx: Vec<usize> = counts.iter().enumerate().filter(|(_, c)| **c > 0).map(|(i, _)| i).collect();
                        *rng.pick(&idx)
                    } else {
                        rng.below(l.targets.len() as u64) as usize
                    };
                    counts[t] += 1;
                    ops.push(Install { target: t, kind: kind.into(), fake, value: rng.chance(1, 2) });
                }
                let maxrep = counts.iter().copied().max().unwrap_or(0);
                classes.push(format!("n{}-rep{}", n_ops.min(8), maxrep.min(3)));
                let exit_panic = rng.chance(1, 4);
                classes.push(if exit_panic { "exit-panic".into() } else { "exit-drop".into() });
                // what the rest of the process did since the previous lifetime
                let mut pre: Vec<String> = Vec::new();
                if !lifetimes.is_empty() {
                    if rng.chance(1, 4) {
                        pre.push("reprotect_text".into());
                        classes.push("env-reprotect-text".into());
                    }
                    if rng.chance(1, 4) {
                        pre.push("occupy_freed".into());
                        classes.push("env-occupy-freed".into());
                    }
                }
                let inside_unwind = rng.chance(1, 8);
                if inside_unwind {
                    classes.push("lifetime-inside-unwind".into());
                }
                lifetimes.push(Lifetime { ops, exit_panic, pre, exit_mprotect_fail: None, inside_unwind });
            }
            classes.extend(l.classes.iter().cloned());
            return finish(profile, variant, seed, index, ps, pol, l, lifetimes, classes);
        }
        // ------------------------------------------------------------------------------ C11
        "C11" => {
            opts.n_targets = 1;
            opts.base_class = Some(*rng.pick(&[0, 1, 1, 2, 3]));
            opts.hood_class = Some(*rng.pick(&[0, 1, 2, 2, 2, 2, 3]));
            buggify_kernel(&mut rng, &mut pol, &mut classes, true);
            mprotect_faults(&mut rng, &mut pol, &mut classes, &mut opts, 2);
            let mut l = gen_layout(&mut rng, arch, os, &pol, &opts);
            // buggify: kernel falls back to chosen places (inside the window although the hint was
            // occupied; exactly at +-range; just outside)
            if rng.chance(1, 3) && window(arch, os) > 0 {
                let t = l.targets[0] & !1;
                let w = window(arch, os);
                let tp = t / ps * ps;
                let cands = [
                    tp.wrapping_add(w),
                    tp.wrapping_sub(w),
                    tp.wrapping_add(w + ps),
                    tp.wrapping_sub(w + ps),
                    tp.wrapping_add(w - ps),
                    tp.wrapping_add(16 * ps),
                ];
                let k = 1 + rng.below(2);
                for _ in 0..k {
                    let c = *rng.pick(&cands);
                    if c >= pol.mmap_min_addr && c < pol.user_limit {
                        pol.fallback.push(c);
                    }
                }
                classes.push("k-fallback-steered".into());
            }
            let kind = *rng.pick(&["raw", "boolean", "raw"]);
            let fake = if arch == Arch::Arm { gen_fake32(&mut rng, &mut classes) } else { gen_fake64(&mut rng, l.hole, &mut classes) };
            let mut ops = vec![Install { target: 0, kind: kind.into(), fake, value: rng.chance(1, 2) }];
            if rng.chance(1, 3) {
                // a second installation meets the neighbourhood the first one left
                let fake2 = if arch == Arch::Arm { gen_fake32(&mut rng, &mut classes) } else { gen_fake64(&mut rng, None, &mut classes) };
                ops.push(Install { target: 0, kind: "raw".into(), fake: fake2, value: false });
            }
            lifetimes.push(Lifetime { ops, exit_panic: false, pre: Vec::new(), exit_mprotect_fail: None, inside_unwind: false });
            classes.extend(l.classes.drain(..));
            return finish(profile, variant, seed, index, ps, pol, l, lifetimes, classes);
        }
        // ------------------------------------------------------------------------------ C15
        "C15" => {
            // one target, several installs: chunk-exhaustive fakes are driven by `index`
            opts.n_targets = 1;
            // mode 0: chunk sweep (32 installs); 1: seeded fakes; 2: displacement steering through a
            // one-free-page neighbourhood; 3: the same under a buggified kernel
            let mode = index % 4;
            opts.hood_class = Some(if mode >= 2 { 2 } else { 0 });
            opts.offset_class = Some(*rng.pick(&[0, 1, 2, 3, 4, 5]));
            if mode == 3 {
                buggify_kernel(&mut rng, &mut pol, &mut classes, true);
            }
            if mode >= 1 {
                mprotect_faults(&mut rng, &mut pol, &mut classes, &mut opts, 2);
            }
            let l = gen_layout(&mut rng, arch, os, &pol, &opts);
            let mut ops = Vec::new();
            // position = (index/4) % 4, chunk block = index / 16: 32768 scenarios sweep all 4 x 65536
            let pos = ((index / 4) % 4) as u32;
            let block = index / 16;
            let base = rng.next_u64();
            let n_inst = match mode {
                0 => 32u64,
                1 => 4,
                _ => 2,
            };
            for i in 0..n_inst {
                let chunk = (block * 32 + i) & 0xFFFF;
                let fake = if mode == 0 {
                    (base & !(0xFFFFu64 << (16 * pos))) | (chunk << (16 * pos))
                } else {
                    gen_fake64(&mut rng, l.hole, &mut Vec::new())
                };
                let kind = if i % 16 == 15 || (mode == 1 && i == 3) { "boolean" } else { "raw" };
                ops.push(Install { target: 0, kind: kind.into(), fake: fake.max(1), value: i % 32 == 15 });
            }
            classes.push(format!("mode{mode}-pos{pos}"));
            lifetimes.push(Lifetime { ops, exit_panic: false, pre: Vec::new(), exit_mprotect_fail: None, inside_unwind: false });
            classes.extend(l.classes.iter().cloned());
            return finish(profile, variant, seed, index, ps, pol, l, lifetimes, classes);
        }
        // ------------------------------------------------------------------------------ C16
        "C16" => {
            opts.n_targets = 1 + rng.below(3) as usize;
            opts.n_bystanders = rng.below(2) as usize;
            mprotect_faults(&mut rng, &mut pol, &mut classes, &mut opts, 6);
            let l = gen_layout(&mut rng, arch, os, &pol, &opts);
            let mut ops = Vec::new();
            // rarely: several hundred fakes alive at once (anything kept per installation in a
            // bounded table or pool overflows)
            let mass = rng.chance(1, 1500);
            if mass {
                classes.push("mass-installs".into());
            }
            for _ in 0..(if mass { 300 + rng.below(200) } else { 4 + rng.below(12) }) {
                let kind = *rng.pick(&["raw", "raw", "raw", "checked", "boolean"]);
                let fake = gen_fake32(&mut rng, &mut classes);
                ops.push(Install { target: rng.below(l.targets.len() as u64) as usize, kind: kind.into(), fake, value: rng.chance(1, 2) });
            }
            for t in &l.targets {
                classes.push(match (t & 1, (t & !1) % 4) {
                    (0, _) => "entry-a32".into(),
                    (_, 0) => "entry-t32-aligned".into(),
                    _ => "entry-t32-halfword".into(),
                });
            }
            lifetimes.push(Lifetime { ops, exit_panic: rng.chance(1, 8), pre: Vec::new(), exit_mprotect_fail: None, inside_unwind: false });
            classes.extend(l.classes.iter().cloned());
            return finish(profile, variant, seed, index, ps, pol, l, lifetimes, classes);
        }
        _ => panic!("unknown profile {profile}"),
    }
}

#[allow(clippy::too_many_arguments)]
fn finish(
    profile: &str,
    variant: &str,
    seed: u64,
    index: u64,
    ps: u64,
    pol: PolicySpec,
    l: Layout,
    lifetimes: Vec<Lifetime>,
    mut classes: Vec<String>,
) -> SimScenario {
    classes.sort();
    classes.dedup();
    let mut lifetimes = lifetimes;
    // a tenth of the scenarios end with a restoration during which one protection change is refused
    if let Some(last) = lifetimes.last_mut() {
        let pick = seed.wrapping_mul(0x9E37_79B9_7F4A_7C15).wrapping_add(index.wrapping_mul(0xD1B5_4A32_D192_ED03)) >> 33;
        // (only where no function is faked twice in that lifetime: with a function faked several
        // times the unchanged tree drops the remaining guards in forward order after the refused
        // one and leaves the entry pointing at a freed trampoline -- observed, and outside what
        // any listed property quantifies over, so not judged)
        let mut seen = std::collections::BTreeSet::new();
        let once = last.ops.iter().all(|o| seen.insert(o.target));
        if once && !last.exit_panic && !last.inside_unwind && !last.ops.is_empty() && pick % 10 == 0 && matches!(profile, "C01" | "C02" | "C03" | "C12" | "C17" | "C11") {
            last.exit_mprotect_fail = Some((pick / 10) % 3);
            classes.push("exit-mprotect-refused".into());
            classes.sort();
        }
    }
    // (own stream: the rest of the scenario does not depend on it)
    let text_rwx = Rng::new(simos::rng::scenario_seed(seed, "S/text-rwx", index)).chance(1, 6);
    if text_rwx {
        classes.push("text-already-rwx".into());
        classes.sort();
    }
    let text_bti = variant == "aarch64_linux" && Rng::new(simos::rng::scenario_seed(seed, "S/text-bti", index)).chance(1, 4);
    if text_bti {
        classes.push("text-bti-guarded".into());
        classes.sort();
    }
    SimScenario {
        engine: "S".into(),
        profile: profile.into(),
        variant: variant.into(),
        seed,
        index,
        page_size: ps,
        policy: pol,
        text: l.text,
        foreign: l.foreign,
        targets: l.targets,
        bystanders: l.bystanders,
        forwarders: l.forwarders,
        pitch: l.pitch,
        immutable_after_text: l.immutable_after_text,
        text_rwx,
        text_bti,
        lifetimes,
        classes,
    }
}
