//! Scenario executor + oracles for engine S.

use crate::scenario::*;
use simos::interp::{self, Exec};
use simos::world::{self, with_world, Ev, HintMode, Owner, Policy, World, PROT_R, PROT_X};
/// Linux/arm64 `PROT_BTI`
const PROT_BTI: i32 = 0x10;
use simos::SimSegv;
use std::collections::{BTreeMap, BTreeSet};

#[derive(Clone, Debug)]
pub struct Violation {
    pub tag: String,
    pub props: Vec<&'static str>,
    pub detail: String,
}

/// One interpreter run recorded for cross-validation against an independent disassembler.
#[derive(Clone, Debug)]
pub struct Trace {
    pub arch: &'static str,
    pub thumb_entry: bool,
    /// (address, bytes) of every executed instruction, in order
    pub insns: Vec<(u64, Vec<u8>)>,
    pub final_pc: u64,
}

thread_local! {
    pub static TRACES: std::cell::RefCell<Option<Vec<Trace>>> = const { std::cell::RefCell::new(None) };
}

#[derive(Default, Clone, Debug)]
pub struct Outcome {
    pub violations: Vec<Violation>,
    pub digest: u64,
    pub probes: BTreeMap<String, u64>,
    pub faults: BTreeMap<String, u64>,
    pub events: u64,
    pub installs_ok: u64,
    pub installs_refused: u64,
    pub interp_steps: u64,
}

#[derive(Clone, Debug)]
pub enum OpResult {
    Ok,
    Panic(String),
    Segv(u64, bool),
}

pub fn classify(r: Result<(), Box<dyn std::any::Any + Send>>) -> OpResult {
    match r {
        Ok(()) => OpResult::Ok,
        Err(p) => {
            if let Some(s) = p.downcast_ref::<SimSegv>() {
                OpResult::Segv(s.addr, s.write)
            } else if let Some(s) = p.downcast_ref::<String>() {
                OpResult::Panic(s.clone())
            } else if let Some(s) = p.downcast_ref::<&str>() {
                OpResult::Panic(s.to_string())
            } else {
                OpResult::Panic("<non-string payload>".into())
            }
        }
    }
}

pub struct InjectedPanic;

pub fn intern_prop(p: &str) -> &'static str {
    const ALL: [&str; 17] = ["C01", "C02", "C03", "C04", "C05", "C06", "C07", "C08", "C09", "C10", "C11", "C12", "C13", "C14", "C15", "C16", "C17"];
    ALL.iter().copied().find(|x| *x == p).unwrap_or("C00")
}

pub trait Hooks {
    fn before_op(&mut self, i: usize, op: &Install);
    fn after_op(&mut self, i: usize, op: &Install, r: OpResult);
    fn before_exit(&mut self);
}

pub const SIG: &str = "fn() -> bool";
pub static COUNTED_NEVER_CALLED: std::sync::atomic::AtomicUsize = std::sync::atomic::AtomicUsize::new(0);

macro_rules! variant_mod {
    ($m:ident, $krate:ident) => {
        pub mod $m {
            use super::*;
            use std::panic::{catch_unwind, AssertUnwindSafe};
            use $krate::interface::injector::*;

            fn install(inj: &mut InjectorPP, op: &Install, targets: &[u64]) {
                let t = targets[op.target] as usize as *const ();
                let f = op.fake as usize as *const ();
                unsafe {
                    match op.kind.as_str() {
                        "raw" => inj.when_called(FuncPtr::new(t, SIG)).will_execute_raw(FuncPtr::new(f, SIG)),
                        "checked" => inj.when_called(FuncPtr::new(t, SIG)).will_execute((FuncPtr::new(f, SIG), CallCountVerifier::Dummy)),
                        "unchecked" => inj.when_called_unchecked(FuncPtr::new(t, "")).will_execute_raw_unchecked(FuncPtr::new(f, "")),
                        "boolean" => inj.when_called(FuncPtr::new(t, SIG)).will_return_boolean(op.value),
                        // a fake with an expectation that is never met: scope exit panics in the verifier
                        "counted" => inj.when_called(FuncPtr::new(t, SIG)).will_execute((FuncPtr::new(f, SIG), CallCountVerifier::WithCount { counter: &COUNTED_NEVER_CALLED, expected: 1 })),
                        k => panic!("harness: unknown install kind {k}"),
                    }
                }
            }

            pub fn run_lifetime(lt: &Lifetime, targets: &[u64], h: &mut dyn Hooks) -> OpResult {
                if lt.inside_unwind {
                    // the same lifetime, started from a destructor that runs because of a panic
                    struct InDrop<F: FnMut()>(Option<F>);
                    impl<F: FnMut()> Drop for InDrop<F> {
                        fn drop(&mut self) {
                            if let Some(mut f) = self.0.take() {
                                f()
                            }
                        }
                    }
                    struct Outer;
                    let mut out: Option<OpResult> = None;
                    let mut plain = lt.clone();
                    plain.inside_unwind = false;
                    let r = catch_unwind(AssertUnwindSafe(|| {
                        let _g = InDrop(Some(|| out = Some(run_lifetime(&plain, targets, h))));
                        std::panic::panic_any(Outer);
                    }));
                    return match (out, r) {
                        (Some(o), _) => o,
                        (None, other) => classify(other.map(|_| ())),
                    };
                }
                let r = catch_unwind(AssertUnwindSafe(|| {
                    let mut inj = InjectorPP::new();
                    for (i, op) in lt.ops.iter().enumerate() {
                        h.before_op(i, op);
                        let res = catch_unwind(AssertUnwindSafe(|| install(&mut inj, op, targets)));
                        h.after_op(i, op, classify(res));
                    }
                    h.before_exit();
                    if lt.exit_panic {
                        std::panic::panic_any(InjectedPanic);
                    }
                    drop(inj);
                }));
                match r {
                    Err(p) if p.is::<InjectedPanic>() => OpResult::Ok,
                    other => classify(other),
                }
            }
        }
    };
}

variant_mod!(v_x86_64_linux, ipp_x86_64_linux);
variant_mod!(v_aarch64_linux, ipp_aarch64_linux);
variant_mod!(v_arm_linux, ipp_arm_linux);
variant_mod!(v_aarch64_macos, ipp_aarch64_macos);
variant_mod!(v_x86_64_macos, ipp_x86_64_macos);
variant_mod!(v_x86_64_windows, ipp_x86_64_windows);
variant_mod!(v_aarch64_windows, ipp_aarch64_windows);

fn dispatch(variant: &str, lt: &Lifetime, targets: &[u64], h: &mut dyn Hooks) -> OpResult {
    match variant {
        "x86_64_linux" => v_x86_64_linux::run_lifetime(lt, targets, h),
        "aarch64_linux" => v_aarch64_linux::run_lifetime(lt, targets, h),
        "arm_linux" => v_arm_linux::run_lifetime(lt, targets, h),
        "aarch64_macos" => v_aarch64_macos::run_lifetime(lt, targets, h),
        "x86_64_macos" => v_x86_64_macos::run_lifetime(lt, targets, h),
        "x86_64_windows" => v_x86_64_windows::run_lifetime(lt, targets, h),
        "aarch64_windows" => v_aarch64_windows::run_lifetime(lt, targets, h),
        v => panic!("unknown variant {v}"),
    }
}

#[derive(Clone, Debug)]
enum Inst {
    Fake(u64),
    Bool(bool),
}

/// extent of one function in the current scenario (`SimScenario::pitch`)
static SLOT_LEN: std::sync::atomic::AtomicU64 = std::sync::atomic::AtomicU64::new(16);
#[allow(non_snake_case)]
fn SLOT_() -> u64 {
    SLOT_LEN.load(std::sync::atomic::Ordering::Relaxed)
}

struct Checker<'a> {
    sc: &'a SimScenario,
    arch: Arch,
    os: Os,
    pristine: Vec<(u64, Vec<u8>)>,
    model: Vec<Vec<Inst>>,
    named: BTreeSet<usize>,
    out: Outcome,
    // per-op snapshot
    ev_mark: usize,
    regions_before: Vec<(u64, u64)>,
    slot_before: Vec<u8>,
    mprotect_faults_before: u64,
    counted_installed: bool,
    cur_boolean: bool,
    obs_findings: std::rc::Rc<std::cell::RefCell<Vec<String>>>,
    obs_count: std::rc::Rc<std::cell::Cell<u64>>,
    last_exit_ok: bool,
    exit_fault: Option<u64>,
    lifetime: usize,
    op_ordinal: u64,
    /// bytes written to code and not yet covered by an icache flush
    dirty: BTreeSet<u64>,
}

fn slot_of(entry: u64) -> (u64, u64) {
    let e = entry & !1;
    (e, e + SLOT_())
}

impl<'a> Checker<'a> {
    fn viol(&mut self, tag: &str, props: &[&'static str], detail: String) {
        if self.out.violations.len() < 16 && !self.out.violations.iter().any(|v| v.tag == tag) {
            self.out.violations.push(Violation { tag: tag.to_string(), props: props.to_vec(), detail });
        }
    }
    fn probe(&mut self, name: &str) {
        *self.out.probes.entry(name.to_string()).or_insert(0) += 1;
    }

    fn entry_addr(&self, entry: u64) -> u64 {
        if self.arch == Arch::Arm {
            entry & !1
        } else {
            entry
        }
    }

    fn pristine_bytes(&self, addr: u64, n: usize) -> Vec<u8> {
        for (s, d) in &self.pristine {
            if addr >= *s && addr + n as u64 <= *s + d.len() as u64 {
                return d[(addr - s) as usize..(addr - s) as usize + n].to_vec();
            }
        }
        panic!("harness: pristine_bytes outside text {addr:#x}");
    }

    fn run_interp(&self, w: &World, entry: u64, allowed: &[(u64, u64)], stop: Option<u64>) -> Exec {
        match self.arch {
            Arch::X86_64 => interp::run_x86_64(w, entry, allowed, stop, 64),
            Arch::A64 => interp::run_a64(w, entry, allowed, stop, 64),
            Arch::Arm => interp::run_arm(w, entry, allowed, stop, 64),
        }
    }

    /// registers a redirection sequence may write
    fn scratch_mask(&self) -> u64 {
        match self.arch {
            Arch::X86_64 => 1 << 0 | 1 << 10 | 1 << 11, // rax, r10, r11: caller-saved and carry no argument
            Arch::A64 => 0x3FE00,                   // x9..x17
            Arch::Arm => 1 << 12,                   // ip
        }
    }

    fn props_redirect_entry(&self) -> Vec<&'static str> {
        match self.arch {
            Arch::X86_64 => vec!["C01", "C11"],
            Arch::A64 => vec!["C01", "C11", "C15"],
            Arch::Arm => vec!["C01", "C16"],
        }
    }
    fn props_redirect_tramp(&self) -> Vec<&'static str> {
        match self.arch {
            // C13: transparency "for both the short and the long trampoline form" presupposes that
            // the form chosen reaches the fake at all
            Arch::X86_64 => vec!["C01", "C13"],
            Arch::A64 => vec!["C01", "C15", "C13"],
            Arch::Arm => vec!["C01", "C16"],
        }
    }
    fn props_regs(&self) -> Vec<&'static str> {
        match self.arch {
            Arch::X86_64 => vec!["C13"],
            Arch::A64 => vec!["C13", "C15"],
            Arch::Arm => vec!["C16"],
        }
    }
    fn props_bool(&self) -> Vec<&'static str> {
        match self.arch {
            Arch::X86_64 => vec!["C10", "C01"],
            Arch::A64 => vec!["C10", "C15", "C01"],
            Arch::Arm => vec!["C10"],
        }
    }

    /// Compare the behaviour of every function with the reference model.
    fn verify_all(&mut self, when: &str) {
        let sc = self.sc;
        let mut found: Vec<(String, Vec<&'static str>, String)> = Vec::new();
        let mut probes: Vec<String> = Vec::new();
        let mut steps = 0u64;
        with_world(|w| {
            let inj = w.injector_regions();
            // slots that currently differ from the pristine image
            let mut patched: Vec<(u64, u64)> = Vec::new();
            for t in sc.targets.iter().chain(sc.bystanders.iter()) {
                let (s, e) = slot_of(*t);
                let cur = w.peek(s, SLOT_() as usize).unwrap_or_default();
                if cur != self.pristine_bytes(s, SLOT_() as usize) {
                    patched.push((s, e));
                }
            }
            for (ti, t) in sc.targets.iter().enumerate() {
                let (s, e) = slot_of(*t);
                let is_patched = patched.contains(&(s, e));
                match self.model[ti].last() {
                    None => {
                        if is_patched {
                            let props: Vec<&'static str> = if self.named.contains(&ti) { vec!["C02"] } else { vec!["C03"] };
                            found.push((
                                "function-without-fake-is-modified".into(),
                                props,
                                format!("{when}: target #{ti} at {:#x} has no live fake but its entry bytes differ from the original", t),
                            ));
                        }
                    }
                    Some(inst) => {
                        let stop = match inst {
                            Inst::Fake(f) => Some(*f),
                            Inst::Bool(_) => None,
                        };
                        // "every call, from any call site": a call through a function pointer is a
                        // `blr`; on a guarded page its first instruction must be a landing pad
                        if self.arch == Arch::A64 && w.prot_at(*t).map(|p| p & PROT_BTI != 0).unwrap_or(false) {
                            let first = w.peek(*t, 4).map(|b| u32::from_le_bytes([b[0], b[1], b[2], b[3]])).unwrap_or(0);
                            // bti c / bti jc / paciasp / pacibsp
                            if !matches!(first, 0xd503245f | 0xd50324df | 0xd503233f | 0xd503237f) {
                                found.push((
                                    "indirect-call-of-faked-function-faults".into(),
                                    self.props_redirect_entry(),
                                    format!("{when}: target #{ti} at {:#x} lies on a page that is (still) guarded by PROT_BTI and its entry now begins with {first:#010x}, not a landing pad: a call through a function pointer (`blr`) raises a Branch Target exception instead of reaching the fake", t),
                                ));
                                continue;
                            }
                        }
                        // stage A: the entry patch alone must land inside a trampoline mapping
                        if self.arch != Arch::Arm {
                            let a = self.run_interp(w, *t, &[(s, e)], stop);
                            steps += a.steps as u64;
                            let lands = inj.iter().any(|(rs, re)| a.final_pc >= *rs && a.final_pc < *re);
                            if a.error.is_some() || !lands || a.returned {
                                // a direct jump to the fake from the entry is also a correct redirection
                                let direct_ok = a.error.is_none() && stop.is_some() && Some(a.final_pc) == stop && !a.returned;
                                if !direct_ok {
                                    found.push((
                                        "entry-branch-misses-trampoline".into(),
                                        self.props_redirect_entry(),
                                        format!(
                                            "{when}: target #{ti} at {:#x}: entry patch leads to {:#x} (error: {:?}); injector mappings: {:x?}",
                                            t, a.final_pc, a.error, inj
                                        ),
                                    ));
                                    continue;
                                }
                            }
                            if a.executed.len() > 1 {
                                probes.push("entry_long_form".into());
                            }
                        }
                        // stage B: the whole path
                        let mut allowed = inj.clone();
                        allowed.push((s, e));
                        let x = self.run_interp(w, *t, &allowed, stop);
                        steps += x.steps as u64;
                        TRACES.with(|tr| {
                            if let Some(v) = tr.borrow_mut().as_mut() {
                                if v.len() < 4096 && x.error.is_none() && x.lens.len() == x.executed.len() {
                                    let insns = x.executed.iter().zip(x.lens.iter()).map(|(a, l)| (*a, w.peek(*a, *l as usize).unwrap_or_default())).collect();
                                    v.push(Trace {
                                        arch: match self.arch {
                                            Arch::X86_64 => "x86_64",
                                            Arch::A64 => "aarch64",
                                            Arch::Arm => "arm",
                                        },
                                        thumb_entry: self.arch == Arch::Arm && t & 1 == 1,
                                        insns,
                                        final_pc: x.final_pc,
                                    });
                                }
                            }
                        });
                        match inst {
                            Inst::Fake(f) => {
                                let want_pc = *f;
                                if x.error.is_some() || x.returned || x.final_pc != want_pc {
                                    found.push((
                                        "redirect-does-not-reach-fake".into(),
                                        self.props_redirect_tramp(),
                                        format!(
                                            "{when}: target #{ti} at {:#x} should reach fake {:#x} but control ends at {:#x} (returned={}, error: {:?}, loads: {:x?})",
                                            t, want_pc, x.final_pc, x.returned, x.error, x.loads
                                        ),
                                    ));
                                } else {
                                    let bad = x.written & !self.scratch_mask();
                                    if bad != 0 || x.stack_delta != 0 {
                                        let state = match self.arch {
                                            Arch::Arm => if t & 1 == 1 { "thumb" } else { "arm" },
                                            Arch::A64 => "a64",
                                            Arch::X86_64 => "x86_64",
                                        };
                                        found.push((
                                            format!("redirect-clobbers-register[{state}:mask={bad:#x}:sp{:+}]", x.stack_delta),
                                            self.props_regs(),
                                            format!(
                                                "{when}: target #{ti} at {:#x} ({}): registers written mask {:#x} (not allowed: {:#x}), stack delta {}",
                                                t,
                                                if self.arch == Arch::Arm { if t & 1 == 1 { "thumb" } else { "arm" } } else { "" },
                                                x.written,
                                                bad,
                                                x.stack_delta
                                            ),
                                        ));
                                    }
                                    if self.arch == Arch::X86_64 {
                                        // which trampoline form?
                                        if x.executed.len() >= 3 {
                                            probes.push("long_form_in_jit".into());
                                        } else {
                                            probes.push("short_form_in_jit".into());
                                        }
                                    }
                                    if self.arch == Arch::Arm {
                                        for (a, _, v) in &x.loads {
                                            let _ = (a, v);
                                        }
                                    }
                                }
                            }
                            Inst::Bool(v) => {
                                let want = *v as u64;
                                let ok_val = x.result.0 & 0xFF == 0xFF && x.result.1 & 0xFF == want;
                                if self.arch == Arch::Arm {
                                    // arm branches to a Rust helper inside the library (a host address
                                    // truncated to 32 bits here): only demand that control leaves the
                                    // patch through a loaded literal, in a defined state
                                    if x.error.is_some() || x.loads.is_empty() {
                                        found.push((
                                            "boolean-stub-wrong".into(),
                                            vec!["C10"],
                                            format!("{when}: target #{ti}: forced boolean patch does not decode: {:?}", x.error),
                                        ));
                                    }
                                } else {
                                    let extra = x.written & !(self.scratch_mask() | 1);
                                    let want_delta = if self.arch == Arch::X86_64 { 8 } else { 0 };
                                    if x.error.is_some() || !x.returned || !ok_val || extra != 0 || x.stack_delta != want_delta {
                                        found.push((
                                            "boolean-stub-wrong".into(),
                                            self.props_bool(),
                                            format!(
                                                "{when}: target #{ti} at {:#x}: forced boolean {} gives result (mask {:#x}, value {:#x}), returned={}, written={:#x}, stack delta {}, error {:?}",
                                                t, v, x.result.0, x.result.1, x.returned, x.written, x.stack_delta, x.error
                                            ),
                                        ));
                                    }
                                }
                            }
                        }
                    }
                }
            }
            for (bi, b) in sc.bystanders.iter().enumerate() {
                let (s, e) = slot_of(*b);
                if patched.contains(&(s, e)) {
                    found.push((
                        "bystander-modified".into(),
                        // forcing a boolean must have "no other observable effect" (C10)
                        if self.cur_boolean { vec!["C03", "C10"] } else { vec!["C03"] },
                        format!("{when}: bystander #{bi} at {:#x} was never named in an installation but its bytes changed", b),
                    ));
                }
            }
        });
        self.out.interp_steps += steps;
        for p in probes {
            self.probe(&p);
        }
        for (t, p, d) in found {
            self.viol(&t, &p, d);
        }
    }

    /// Oracles over the events of one public API call (an installation or the drop).
    fn check_events(&mut self, what: &str, extra_named: Option<usize>) {
        let sc = self.sc;
        let evs: Vec<Ev> = with_world(|w| w.events[self.ev_mark..].to_vec());
        let mut named = self.named.clone();
        if let Some(t) = extra_named {
            named.insert(t);
        }
        let slots: Vec<(u64, u64)> = named.iter().map(|i| slot_of(sc.targets[*i])).collect();
        for ev in &evs {
            match ev {
                Ev::Write { addr, bytes, own } => {
                    let end = addr + bytes.len() as u64;
                    if own & 2 != 0 {
                        self.viol("write-to-foreign-memory", &["C03"], format!("{what}: wrote {} bytes at {:#x} into memory the injector does not own", bytes.len(), addr));
                    }
                    if own & 1 != 0 {
                        // 32-bit ARM: "the 12 bytes written at the function entry" (C16), whatever the pitch
                        let lim = if self.arch == Arch::Arm { 12 } else { SLOT_() };
                        let inside = slots.iter().any(|(s, _)| *addr >= *s && end <= *s + lim);
                        if !inside {
                            let wprops: &[&'static str] = match (self.arch, self.cur_boolean) {
                                (Arch::Arm, true) => &["C03", "C10", "C16"],
                                (Arch::Arm, false) => &["C03", "C16"],
                                (_, true) => &["C03", "C10"],
                                _ => &["C03"],
                            };
                            self.viol(
                                "write-outside-entry-slot",
                                wprops,
                                format!("{what}: wrote [{:#x},{:#x}) in program text; allowed entry slots: {:x?}", addr, end, slots),
                            );
                        }
                    }
                    for a in *addr..end {
                        self.dirty.insert(a);
                    }
                }
                Ev::Flush { start, end, kind } => {
                    if *kind != 3 && start < end {
                        let covered: Vec<u64> = self.dirty.range(*start..*end).copied().collect();
                        for a in covered {
                            self.dirty.remove(&a);
                        }
                    }
                }
                Ev::Munmap { addr, len, ret, own, exact } => {
                    if *ret == 0 {
                        if own & !(4 | 8) != 0 {
                            self.viol("munmap-of-foreign-memory", &["C12", "C03"], format!("{what}: munmap({:#x}, {}) removed memory not allocated by the injector (owner mask {})", addr, len, own));
                        } else if *own == 0 {
                            self.viol("munmap-of-unmapped-range", &["C12"], format!("{what}: munmap({:#x}, {}) names a range that is not mapped (freed twice?)", addr, len));
                        } else if !*exact {
                            self.viol("munmap-partial", &["C12"], format!("{what}: munmap({:#x}, {}) does not name exactly one injector mapping", addr, len));
                        }
                        // freed code needs no flush
                        let ps = sc.page_size;
                        let e = addr + (len + ps - 1) / ps * ps;
                        let gone: Vec<u64> = self.dirty.range(*addr..e).copied().collect();
                        for a in gone {
                            self.dirty.remove(&a);
                        }
                    } else {
                        self.viol("munmap-failed", &["C12"], format!("{what}: munmap({:#x}, {}) failed", addr, len));
                    }
                }
                _ => {}
            }
        }
        if !self.dirty.is_empty() {
            let lo = *self.dirty.iter().next().unwrap();
            let hi = *self.dirty.iter().next_back().unwrap();
            self.viol(
                "code-written-without-covering-flush",
                &["C17"],
                format!("{what}: {} byte(s) in [{:#x},{:#x}] were written and not covered by a later instruction-cache flush before the call returned", self.dirty.len(), lo, hi + 1),
            );
            self.dirty.clear();
        }
    }
}

#[derive(Clone, Debug)]
enum Dest {
    Orig,
    Fake(u64),
    Bool(bool),
}

fn interp_any(arch: Arch, w: &World, entry: u64, allowed: &[(u64, u64)], stop: Option<u64>) -> Exec {
    match arch {
        Arch::X86_64 => interp::run_x86_64(w, entry, allowed, stop, 64),
        Arch::A64 => interp::run_a64(w, entry, allowed, stop, 64),
        Arch::Arm => interp::run_arm(w, entry, allowed, stop, 64),
    }
}

impl<'a> Checker<'a> {
    /// "Another thread calls the functions right now": an observer for OS-call boundaries.  Each
    /// target must behave as one of `allowed[target]` at every boundary.
    fn make_observer(&self, allowed: Vec<Vec<Dest>>) -> Box<dyn FnMut(&World, &'static str)> {
        let arch = self.arch;
        let targets = self.sc.targets.clone();
        let bystanders = self.sc.bystanders.clone();
        let pristine: Vec<Vec<u8>> = targets.iter().chain(bystanders.iter()).map(|t| self.pristine_bytes(slot_of(*t).0, SLOT_() as usize)).collect();
        let findings = self.obs_findings.clone();
        let count = self.obs_count.clone();
        Box::new(move |w: &World, point: &'static str| {
            let inj = w.injector_regions();
            let mut patched: Vec<(u64, u64)> = Vec::new();
            for (i, t) in targets.iter().chain(bystanders.iter()).enumerate() {
                let (s0, e0) = slot_of(*t);
                if w.peek(s0, SLOT_() as usize).unwrap_or_default() != pristine[i] {
                    patched.push((s0, e0));
                }
            }
            for (bi, b) in bystanders.iter().enumerate() {
                // a thread running an un-named neighbour must be able to fetch its code right now
                let (s0, _) = slot_of(*b);
                let exec_ok = (0..SLOT_()).all(|i| w.prot_at(s0 + i).map(|p| p & PROT_X != 0).unwrap_or(false));
                if !exec_ok && findings.borrow().len() < 4 {
                    findings.borrow_mut().push(format!("at the {point} boundary the un-named neighbour #{bi} at {:#x} is not executable (a thread running it would fault) [bystander]", b));
                }
            }
            for (ti, t) in targets.iter().enumerate() {
                count.set(count.get() + 1);
                let (s0, e0) = slot_of(*t);
                let is_patched = patched.contains(&(s0, e0));
                let mut allowed_ranges = inj.clone();
                allowed_ranges.extend(patched.iter().copied());
                let mut ok = false;
                let mut last = String::new();
                for d in &allowed[ti] {
                    match d {
                        Dest::Orig => {
                            if !is_patched {
                                ok = true;
                            }
                        }
                        Dest::Fake(f) => {
                            if is_patched {
                                let x = interp_any(arch, w, *t, &allowed_ranges, Some(*f));
                                if x.error.is_none() && !x.returned && x.final_pc == *f {
                                    ok = true;
                                } else {
                                    last = format!("leads to {:#x} (returned={}, error {:?})", x.final_pc, x.returned, x.error);
                                }
                            }
                        }
                        Dest::Bool(b) => {
                            if is_patched {
                                let x = interp_any(arch, w, *t, &allowed_ranges, None);
                                let val_ok = arch == Arch::Arm || (x.result.0 & 0xFF == 0xFF && x.result.1 & 0xFF == *b as u64);
                                if x.error.is_none() && (x.returned || arch == Arch::Arm) && val_ok {
                                    ok = true;
                                } else {
                                    last = format!("returns={} result=({:#x},{:#x}) error {:?}", x.returned, x.result.0, x.result.1, x.error);
                                }
                            }
                        }
                    }
                    if ok {
                        break;
                    }
                }
                if !ok && findings.borrow().len() < 4 {
                    findings.borrow_mut().push(format!("at the {point} boundary a call of target #{ti} at {:#x} from another thread would not behave as any of {:x?}: entry patched={}, {}", t, allowed[ti], is_patched, last));
                }
            }
        })
    }

    fn dests_of(&self, ti: usize) -> Vec<Dest> {
        let mut v: Vec<Dest> = self.model[ti].iter().map(|i| match i {
            Inst::Fake(f) => Dest::Fake(*f),
            Inst::Bool(b) => Dest::Bool(*b),
        }).collect();
        v
    }
}

impl<'a> Hooks for Checker<'a> {
    fn before_op(&mut self, i: usize, op: &Install) {
        self.cur_boolean = op.kind == "boolean";
        let t = self.sc.targets[op.target];
        let (s, _) = slot_of(t);
        with_world(|w| w.mark((self.lifetime as u32) << 16 | i as u32));
        self.ev_mark = with_world(|w| w.events.len());
        self.regions_before = with_world(|w| w.injector_regions());
        self.slot_before = with_world(|w| w.peek(s, SLOT_() as usize).unwrap());
        self.mprotect_faults_before = with_world(|w| w.counters.mprotect_injected_fail);
        // another thread calls every function at each OS-call boundary of this installation
        let mut allowed: Vec<Vec<Dest>> = Vec::new();
        for ti in 0..self.sc.targets.len() {
            let mut v: Vec<Dest> = match self.model[ti].last() {
                None => vec![Dest::Orig],
                Some(Inst::Fake(f)) => vec![Dest::Fake(*f)],
                Some(Inst::Bool(b)) => vec![Dest::Bool(*b)],
            };
            if ti == op.target {
                v.push(if op.kind == "boolean" { Dest::Bool(op.value) } else { Dest::Fake(op.fake) });
            }
            allowed.push(v);
        }
        let obs = self.make_observer(allowed);
        with_world(|w| {
            w.observer = Some(obs);
            w.observer_calls = 0;
        });
        // arm the fault schedule for this installation only (never for the restore path: the
        // properties promise nothing about a failing restore)
        let ord = self.op_ordinal;
        self.op_ordinal += 1;
        let sc = self.sc;
        // page-granular: a denied page must not hold any live fake (its restore would fail too)
        let target_unfaked = self.model.iter().all(|m| m.is_empty());
        with_world(|w| {
            let base = w.counters.mmap_calls;
            w.policy.fail_mmap = sc.policy.fail_mmap.iter().map(|i| base + i).collect();
            w.policy.fail_mmap_all = sc.policy.fail_mmap_all;
            w.policy.fail_mprotect = if sc.policy.fail_mprotect.contains(&ord) { vec![w.counters.mprotect_calls] } else { vec![] };
            // ordinal + 1000 in the list = the target's pages can never be made writable, for the
            // rest of the lifetime (only when the target carries no live fake: nothing claims that a
            // failing restore is survivable)
            if sc.policy.fail_mprotect.contains(&(ord + 1000)) && target_unfaked {
                let ps = w.page_size;
                let lo = s & !(ps - 1);
                w.policy.mprotect_deny.push((lo, (s + SLOT_() + ps - 1) & !(ps - 1)));
            }
            // ordinal + 2000: only the SECOND page under the entry slot can never be made writable
            // (matters for entries that straddle a page boundary)
            if sc.policy.fail_mprotect.contains(&(ord + 2000)) && target_unfaked {
                let ps = w.page_size;
                let second = (s & !(ps - 1)) + ps;
                if second < s + SLOT_() {
                    w.policy.mprotect_deny.push((second, second + ps));
                }
            }
            // ordinal + 3000: the second mprotect call of this installation fails (an
            // implementation that protects page by page)
            if sc.policy.fail_mprotect.contains(&(ord + 3000)) {
                w.policy.fail_mprotect.push(w.counters.mprotect_calls + 1);
                w.policy.fail_mprotect.sort();
            }
        });
    }

    fn after_op(&mut self, i: usize, op: &Install, r: OpResult) {
        with_world(|w| w.observer = None);
        let first = { let mut b = self.obs_findings.borrow_mut(); let f = b.first().cloned(); b.clear(); f };
        if let Some(f) = first {
            let props = self.props_redirect_entry();
            let mut props = props;
            props.push("C02");
            if f.contains("[bystander]") {
                props = vec!["C03"];
            }
            let t = self.sc.targets[op.target];
            self.viol("call-during-installation-saw-neither-old-nor-new-behaviour", &props, format!("lifetime {} op {} ({} on target #{} at {:#x}): {f}", self.lifetime, i, op.kind, op.target, t));
        }
        with_world(|w| {
            w.policy.fail_mmap.clear();
            w.policy.fail_mmap_all = false;
            w.policy.fail_mprotect.clear();
        });
        let sc = self.sc;
        let t = sc.targets[op.target];
        let (s, _) = slot_of(t);
        let what = format!("lifetime {} op {} ({} on target #{} at {:#x})", self.lifetime, i, op.kind, op.target, t);
        match r {
            OpResult::Ok => {
                self.out.installs_ok += 1;
                if op.kind == "counted" {
                    self.counted_installed = true;
                }
                self.named.insert(op.target);
                self.model[op.target].push(if op.kind == "boolean" { Inst::Bool(op.value) } else { Inst::Fake(op.fake) });
                self.check_events(&what, Some(op.target));
                self.verify_all(&what);
                // rejected placements must have been given back: every mapping created by this
                // call that is still live must be on the path from the entry
                let now = with_world(|w| w.injector_regions());
                let new: Vec<(u64, u64)> = now.iter().filter(|r| !self.regions_before.contains(r)).copied().collect();
                if new.len() > 1 {
                    let used: Vec<(u64, u64)> = with_world(|w| {
                        let mut allowed = now.clone();
                        allowed.push(slot_of(t));
                        let stop = if op.kind == "boolean" { None } else { Some(op.fake) };
                        let x = self.run_interp(w, t, &allowed, stop);
                        new.iter().filter(|(rs, re)| x.executed.iter().any(|a| a >= rs && a < re)).copied().collect()
                    });
                    if used.len() < new.len() {
                        self.viol(
                            "rejected-placement-left-mapped",
                            &["C11", "C12"],
                            format!("{what}: mappings created by this installation {:x?}, of which only {:x?} are used by the redirection", new, used),
                        );
                    }
                }
                if self.arch != Arch::Arm {
                    if let Some((js, _)) = new.first() {
                        let d = (*js as i128 - (t & !1) as i128).unsigned_abs();
                        if d >= 0x7FF_0000 && d <= 0x800_0000 {
                            self.probe("trampoline_at_window_edge");
                        }
                        if (t & !1) < 0x800_0000 {
                            self.probe("window_clipped_at_zero");
                        }
                    }
                }
                let off = (t & !1) % sc.page_size;
                if off + 5 > sc.page_size {
                    self.probe("entry_spans_page");
                }
            }
            OpResult::Segv(addr, write) => {
                // a WRITE that faults outside the function being patched is a store aimed at memory
                // the installation has no business with (C03), whatever stopped it
                let (fs, _) = slot_of(t);
                let wild = write && !(addr >= fs.saturating_sub(16) && addr < fs + 32);
                // (an installation that dies has not written the sequence the arch-specific
                // properties describe either)
                let cprops: &[&'static str] = match (self.arch, wild) {
                    (Arch::X86_64, true) => &["C01", "C03"],
                    (Arch::X86_64, false) => &["C01"],
                    (Arch::A64, true) => &["C01", "C03", "C15"],
                    (Arch::A64, false) => &["C01", "C15"],
                    (Arch::Arm, true) => &["C01", "C03", "C16"],
                    (Arch::Arm, false) => &["C01", "C16"],
                };
                self.viol(
                    "install-crashed-sigsegv",
                    cprops,
                    format!("{what}: the installation touched {:#x} ({}) and would have died with SIGSEGV; entry offset in page {:#x}", addr, if write { "write" } else { "read" }, (t & !1) % sc.page_size),
                );
                // state is undefined from here on: stop judging this scenario
                self.out.probes.insert("aborted_after_segv".into(), 1);
                self.dirty.clear();
            }
            OpResult::Panic(msg) => {
                self.out.installs_refused += 1;
                if op.kind == "counted" {
                    // observed behaviour, outside the listed properties: the expectation of a
                    // refused `will_execute` stays registered and is verified at scope exit
                    self.counted_installed = true;
                    self.probe("expectation_pending_after_refused_install");
                }
                *self.out.faults.entry("install_panicked".into()).or_insert(0) += 1;
                if msg.contains("Failed to allocate") {
                    self.probe("scan_exhausted");
                }
                // a refused installation leaves the function untouched and gives everything back
                let slot_now = with_world(|w| w.peek(s, SLOT_() as usize).unwrap());
                if slot_now != self.slot_before {
                    // a function left half-patched is also a wrong decode for the arch-specific properties
                    let fprops: &[&'static str] = match self.arch {
                        Arch::X86_64 => &["C11", "C05", "C01"],
                        Arch::A64 => &["C11", "C05", "C01", "C15"],
                        Arch::Arm => &["C11", "C05", "C01", "C16"],
                    };
                    self.viol(
                        "failed-install-modified-function",
                        fprops,
                        format!("{what}: panicked with {:?} but the entry bytes changed from {:02x?} to {:02x?}", msg, self.slot_before, slot_now),
                    );
                }
                let now = with_world(|w| w.injector_regions());
                if now != self.regions_before {
                    let extra: Vec<(u64, u64)> = now.iter().filter(|r| !self.regions_before.contains(r)).copied().collect();
                    let kind = if msg.contains("branch range") { "branch-range-panic" } else if msg.contains("Failed to allocate") { "scan-exhausted" } else if msg.contains("mprotect") || msg.contains("VirtualProtect") { "protect-failed" } else { "other-panic" };
                    let protect_fault_fired = with_world(|w| w.counters.mprotect_injected_fail) > self.mprotect_faults_before;
                    if !protect_fault_fired {
                        self.viol(
                            &format!("failed-install-left-mapping[{kind}]"),
                            &["C11"],
                            format!("{what}: panicked with {:?} leaving mapping(s) {:x?} behind (target at {:#x})", msg, extra, t),
                        );
                    } else {
                        // not a placement rejected as out of range: outside C11/C12 as stated
                        self.probe("mapping_orphaned_by_failed_install");
                        with_world(|w| {
                            for (s0, _) in &extra {
                                if let Some(r) = w.regions.get_mut(s0) {
                                    r.owner = Owner::Alias;
                                }
                            }
                        });
                    }
                }
                // writes made by a failed install still need their flush; and must stay in bounds
                self.check_events(&what, None);
                self.verify_all(&format!("{what} [after refusal]"));
            }
        }
    }

    fn before_exit(&mut self) {
        // during restoration each function shows one of its fakes of this lifetime or its original
        let mut allowed: Vec<Vec<Dest>> = Vec::new();
        for ti in 0..self.sc.targets.len() {
            let mut v = self.dests_of(ti);
            v.push(Dest::Orig);
            allowed.push(v);
        }
        let obs = self.make_observer(allowed);
        with_world(|w| {
            w.observer = Some(obs);
            w.observer_calls = 0;
        });
        with_world(|w| w.mark(0xFFFF_0000 | self.lifetime as u32));
        self.ev_mark = with_world(|w| w.events.len());
        if let Some(k) = self.exit_fault {
            with_world(|w| {
                w.policy.fail_mprotect = vec![w.counters.mprotect_calls + k];
            });
            self.mprotect_faults_before = with_world(|w| w.counters.mprotect_injected_fail);
        }
    }
}

fn r_ok_but_should_have_panicked(ck: &Checker, lt: &Lifetime) -> bool {
    ck.counted_installed && !lt.exit_panic && !lt.inside_unwind && ck.last_exit_ok
}

fn build_world(sc: &SimScenario) -> (World, Vec<(u64, Vec<u8>)>) {
    let mut w = World::new(sc.page_size);
    let p = &sc.policy;
    w.policy = Policy {
        hint: match p.hint.as_str() {
            "down" => HintMode::Down,
            "up" => HintMode::Up,
            "ignore" => HintMode::Ignore,
            "win" => HintMode::WinGranule,
            h => panic!("bad hint mode {h}"),
        },
        fallback: p.fallback.clone(),
        topdown_base: p.topdown_base,
        no_fallback: p.no_fallback,
        fail_mmap: Vec::new(),
        fail_mmap_all: false,
        fail_mprotect: Vec::new(),
        mprotect_deny: Vec::new(),
        immutable: Vec::new(),
        mmap_min_addr: p.mmap_min_addr,
        user_limit: p.user_limit,
        win_granule: 0x10000,
    };
    let mut pristine = Vec::new();
    let (arch, _) = variant_arch_os(&sc.variant);
    for t in &sc.text {
        let len = t.pages * sc.page_size;
        let mut r = simos::rng::Rng::new(t.fill_seed);
        let mut data = r.bytes(len as usize);
        // tail-call forwarders: the target's first instruction jumps to a bystander
        for (ti, bi) in &sc.forwarders {
            if let (Some(ta), Some(ba)) = (sc.targets.get(*ti), sc.bystanders.get(*bi)) {
                if *ta >= t.addr && *ta + 8 <= t.addr + len {
                    let off = (*ta - t.addr) as usize;
                    match arch {
                        Arch::X86_64 => {
                            let rel = (*ba as i64 - (*ta as i64 + 5)) as i32;
                            data[off] = 0xE9;
                            data[off + 1..off + 5].copy_from_slice(&rel.to_le_bytes());
                        }
                        Arch::A64 => {
                            let imm = (((*ba as i64 - *ta as i64) / 4) as u32) & 0x03FF_FFFF;
                            data[off..off + 4].copy_from_slice(&(0x1400_0000u32 | imm).to_le_bytes());
                        }
                        Arch::Arm => {}
                    }
                }
            }
        }
        // realistic first instructions (what the entry holds must not matter to the injector):
        // landing pads, pointer-authentication and frame set-up, import stubs, far thunks
        let fwd_targets: Vec<usize> = sc.forwarders.iter().map(|(ti, _)| *ti).collect();
        for (ti, ta) in sc.targets.iter().enumerate() {
            let e = *ta & !1;
            if fwd_targets.contains(&ti) || e < t.addr || e + sc.pitch > t.addr + len {
                continue;
            }
            let off = (e - t.addr) as usize;
            let mut x = t.fill_seed ^ e.wrapping_mul(0x9E37_79B9_7F4A_7C15);
            let sel = simos::rng::splitmix64(&mut x) % 8;
            match arch {
                Arch::A64 => {
                    let w0: Option<u32> = match sel {
                        0 => Some(0xd503245f), // bti c
                        1 => Some(0xd50324df), // bti jc
                        2 => Some(0xd503233f), // paciasp
                        3 => Some(0xa9bf7bfd), // stp x29, x30, [sp, #-16]!
                        _ => None,
                    };
                    if let Some(v) = w0 {
                        data[off..off + 4].copy_from_slice(&v.to_le_bytes());
                    }
                }
                Arch::X86_64 => match sel {
                    0 if sc.pitch >= 8 => data[off..off + 4].copy_from_slice(&[0xF3, 0x0F, 0x1E, 0xFA]), // endbr64
                    1 if sc.pitch >= 16 && !sc.bystanders.is_empty() => {
                        // import stub: jmp *0(%rip); .quad <another function of the image>
                        data[off..off + 6].copy_from_slice(&[0xFF, 0x25, 0, 0, 0, 0]);
                        let b = sc.bystanders[ti % sc.bystanders.len()];
                        data[off + 6..off + 14].copy_from_slice(&b.to_le_bytes());
                    }
                    _ => {}
                },
                Arch::Arm => {
                    // a lone far branch (linker veneer / thunk) 8-16 MiB away, in either state
                    let d: i64 = (0x80_0000 + (x % 0x7F_0000) as i64 & !3) * if sel & 1 == 0 { 1 } else { -1 };
                    if sel < 2 && *ta & 1 == 1 {
                        // T32 B.W (encoding T4), pc = entry + 4
                        let o = d;
                        let sbit = ((o >> 24) & 1) as u32;
                        let i1 = ((o >> 23) & 1) as u32;
                        let i2 = ((o >> 22) & 1) as u32;
                        let imm10 = ((o >> 12) & 0x3FF) as u32;
                        let imm11 = ((o >> 1) & 0x7FF) as u32;
                        let j1 = (!(i1 ^ sbit)) & 1;
                        let j2 = (!(i2 ^ sbit)) & 1;
                        let hw1 = (0b11110 << 11) | (sbit << 10) | imm10;
                        let hw2 = (0b10 << 14) | (j1 << 13) | (1 << 12) | (j2 << 11) | imm11;
                        data[off..off + 2].copy_from_slice(&(hw1 as u16).to_le_bytes());
                        data[off + 2..off + 4].copy_from_slice(&(hw2 as u16).to_le_bytes());
                    } else if sel < 2 {
                        // A32 B, pc = entry + 8
                        let imm24 = (((d - 8) >> 2) as u32) & 0x00FF_FFFF;
                        data[off..off + 4].copy_from_slice(&(0xEA00_0000u32 | imm24).to_le_bytes());
                    }
                }
            }
        }
        pristine.push((t.addr, data.clone()));
        w.map_fixed(t.addr, len, (if sc.text_rwx { PROT_R | PROT_X | world::PROT_W } else { PROT_R | PROT_X }) | if sc.text_bti { PROT_BTI } else { 0 }, Owner::Text, Some(data));
    }
    for (s, l) in &sc.foreign {
        w.map_fixed(*s, *l, 0, Owner::Foreign, None);
    }
    if sc.immutable_after_text {
        if let Some(t) = sc.text.first() {
            let a = t.addr + t.pages * sc.page_size;
            if w.is_free(a, a + sc.page_size) && a + sc.page_size <= w.policy.user_limit {
                w.map_fixed(a, sc.page_size, PROT_R, Owner::Foreign, Some(vec![0x5Au8; sc.page_size as usize]));
                w.policy.immutable.push((a, a + sc.page_size));
            }
        }
    }
    (w, pristine)
}

/// Sanity rules for a (possibly minimised / hand-edited) scenario.
pub fn validate(sc: &SimScenario) -> Result<(), String> {
    let ps = sc.page_size;
    if !ps.is_power_of_two() || ps < 0x1000 {
        return Err("page size".into());
    }
    let (arch, _) = variant_arch_os(&sc.variant);
    if sc.pitch < crate::scenario::tight_pitch(arch) || sc.pitch > 16 {
        return Err("pitch".into());
    }
    if arch == Arch::X86_64 && sc.pitch < 12 {
        // below 12 bytes only the 5-byte entry form fits: see scenario::tight_pitch
        if sc.targets.iter().any(|t| t % 8 != 0 || t % 0x10000 == 0) {
            return Err("tight x86-64 entries must be 8-byte aligned and off the allocation granule".into());
        }
    }
    SLOT_LEN.store(sc.pitch, std::sync::atomic::Ordering::Relaxed);
    let in_text = |a: u64, n: u64| sc.text.iter().any(|t| a >= t.addr && a + n <= t.addr + t.pages * ps);
    for t in sc.targets.iter().chain(sc.bystanders.iter()) {
        if !in_text(t & !1, SLOT_()) {
            return Err(format!("function {t:#x} outside text"));
        }
    }
    for t in &sc.text {
        if t.addr % ps != 0 || world::is_host(t.addr) {
            return Err("text placement".into());
        }
    }
    let all: Vec<u64> = sc.targets.iter().chain(sc.bystanders.iter()).map(|t| t & !1).collect();
    for (i, a) in all.iter().enumerate() {
        for b in &all[i + 1..] {
            if (*a as i128 - *b as i128).abs() < SLOT_() as i128 {
                return Err(format!("function slots overlap: {a:#x} {b:#x}"));
            }
        }
    }
    for (ti, bi) in &sc.forwarders {
        if *ti >= sc.targets.len() || *bi >= sc.bystanders.len() {
            return Err("forwarder index".into());
        }
    }
    for (li, lt) in sc.lifetimes.iter().enumerate() {
        if lt.exit_mprotect_fail.is_some() {
            // judged only for the last lifetime and only when no function is faked twice in it
            let mut seen = BTreeSet::new();
            if li + 1 != sc.lifetimes.len() || !lt.ops.iter().all(|o| seen.insert(o.target)) {
                return Err("exit_mprotect_fail needs the last lifetime with every function faked at most once".into());
            }
        }
    }
    for lt in &sc.lifetimes {
        for op in &lt.ops {
            if op.target >= sc.targets.len() {
                return Err("op target index".into());
            }
        }
    }
    Ok(())
}

pub fn execute(sc: &SimScenario) -> Outcome {
    let (arch, os) = variant_arch_os(&sc.variant);
    let (w, pristine) = build_world(sc);
    world::install_world(w);
    let mut ck = Checker {
        sc,
        arch,
        os,
        pristine,
        model: vec![Vec::new(); sc.targets.len()],
        named: BTreeSet::new(),
        out: Outcome::default(),
        ev_mark: 0,
        regions_before: Vec::new(),
        slot_before: Vec::new(),
        mprotect_faults_before: 0,
        counted_installed: false,
        cur_boolean: false,
        obs_findings: Default::default(),
        obs_count: Default::default(),
        last_exit_ok: false,
        exit_fault: None,
        lifetime: 0,
        op_ordinal: 0,
        dirty: BTreeSet::new(),
    };
    let _ = ck.os;
    let mut freed_last: Vec<(u64, u64)> = Vec::new();
    for (li, lt) in sc.lifetimes.iter().enumerate() {
        ck.lifetime = li;
        ck.named.clear();
        for m in ck.model.iter_mut() {
            m.clear();
        }
        // ---- what the rest of the process did meanwhile (not injector actions: not logged)
        for ev in &lt.pre {
            match ev.as_str() {
                "reprotect_text" => {
                    let bti = sc.text_bti;
                    with_world(|w| {
                        for (_, r) in w.regions.iter_mut() {
                            if r.owner == Owner::Text {
                                r.prot = PROT_R | PROT_X | if bti { PROT_BTI } else { 0 };
                            }
                        }
                    });
                    *ck.out.faults.entry("env_text_reprotected_between_lifetimes".into()).or_insert(0) += 1;
                }
                "occupy_freed" => {
                    let n = with_world(|w| {
                        let mut n = 0u64;
                        let ps = w.page_size;
                        let freed: Vec<(u64, u64)> = freed_last.iter().map(|(a, l)| (*a & !(ps - 1), (*l + ps - 1) / ps * ps)).collect();
                        for (a, l) in freed {
                            if l > 0 && w.is_free(a, a + l) {
                                w.map_fixed(a, l, 0, Owner::Foreign, None);
                                n += 1;
                            }
                        }
                        n
                    });
                    if n > 0 {
                        *ck.out.faults.entry("env_freed_trampoline_pages_taken_by_someone_else".into()).or_insert(0) += n;
                    }
                }
                _ => {}
            }
        }
        ck.ev_mark = with_world(|w| w.events.len());
        ck.counted_installed = false;
        with_world(|w| w.policy.mprotect_deny.clear());
        let ev_start = with_world(|w| w.events.len());
        ck.exit_fault = if lt.exit_panic { None } else { lt.exit_mprotect_fail };
        let r = dispatch(&sc.variant, lt, &sc.targets, &mut ck);
        let exit_fault_fired = ck.exit_fault.is_some() && with_world(|w| w.counters.mprotect_injected_fail) > ck.mprotect_faults_before;
        with_world(|w| w.policy.fail_mprotect.clear());
        ck.exit_fault = None;
        // pages this lifetime's trampolines lived in and gave back
        freed_last = with_world(|w| {
            w.events[ev_start.min(w.events.len())..]
                .iter()
                .filter_map(|e| match e {
                    Ev::Munmap { addr, len, ret: 0, own, .. } if *own == 4 => Some((*addr, *len)),
                    _ => None,
                })
                .collect()
        });
        ck.last_exit_ok = matches!(r, OpResult::Ok);
        with_world(|w| w.observer = None);
        let first = { let mut b = ck.obs_findings.borrow_mut(); let f = b.first().cloned(); b.clear(); f };
        if let Some(f) = first {
            ck.viol("call-during-restoration-saw-neither-a-fake-nor-the-original", &["C02", "C01"], format!("lifetime {li} scope exit: {f}"));
        }
        if ck.out.probes.contains_key("aborted_after_segv") {
            break;
        }
        let what = format!("lifetime {li} scope exit ({})", if lt.exit_panic { "unwinding" } else { "drop" });
        if let Some(sg) = with_world(|w| w.pending_segv.take()) {
            ck.viol("drop-crashed-sigsegv", &["C02", "C05"], format!("{what}: restoration while unwinding touched {:#x} ({}) and would have died with SIGSEGV", sg.addr, if sg.write { "write" } else { "read" }));
            ck.check_events(&what, None);
            break;
        }
        if exit_fault_fired {
            *ck.out.faults.entry("mprotect_refused_during_restoration".into()).or_insert(0) += 1;
            if let OpResult::Panic(m) = &r {
                if m.to_lowercase().contains("protect") {
                    // The restoration was refused by the OS and said so.  Nothing claims that it
                    // completes; but every function must still be either original or reach one of
                    // its fakes -- a call must never end anywhere else.  The scenario ends here.
                    let mut allowed: Vec<Vec<Dest>> = Vec::new();
                    for ti in 0..sc.targets.len() {
                        let mut v = ck.dests_of(ti);
                        v.push(Dest::Orig);
                        allowed.push(v);
                    }
                    let mut obs = ck.make_observer(allowed);
                    with_world(|w| obs(w, "refused-restoration"));
                    let first = { let mut b = ck.obs_findings.borrow_mut(); let f = b.first().cloned(); b.clear(); f };
                    if let Some(f) = first {
                        ck.viol("function-incoherent-after-refused-restoration", &["C01", "C02"], format!("{what}: after the restoration was refused ({m:?}): {f}"));
                    }
                    break;
                }
            }
        }
        match r {
            OpResult::Ok => {}
            OpResult::Segv(a, wr) => {
                ck.viol("drop-crashed-sigsegv", &["C02"], format!("{what}: restoration touched {:#x} ({}) and would have died with SIGSEGV", a, if wr { "write" } else { "read" }));
                break;
            }
            OpResult::Panic(m) => {
                // a counted fake that was never called makes the verifier panic at scope exit:
                // a normal way for a lifetime to end; restoration is judged all the same
                let counted_live = ck.counted_installed;
                if lt.inside_unwind {
                    // the thread was already unwinding: scope exit must stay silent
                    ck.viol("second-panic-while-unwinding", &["C05", "C06"], format!("{what}: the lifetime runs inside a destructor during a panic, yet scope exit raised {m:?}"));
                } else if counted_live && !lt.exit_panic && m.contains("expected to be called") {
                    *ck.out.faults.entry("verification_panic_at_scope_exit".into()).or_insert(0) += 1;
                } else {
                    ck.viol("drop-panicked", &["C02", "C05"], format!("{what}: unexpected panic {m:?}"));
                }
            }
        }
        if r_ok_but_should_have_panicked(&ck, lt) {
            ck.viol("unsatisfied-expectation-not-reported", &["C06"], format!("{what}: a counted fake was never called yet scope exit did not panic"));
        }
        // model: everything is original again
        for m in ck.model.iter_mut() {
            m.clear();
        }
        ck.check_events(&what, None);
        // every byte of text equals the pristine image
        let diffs: Vec<String> = with_world(|w| {
            let mut v = Vec::new();
            for (s, d) in &ck.pristine {
                let cur = w.peek(*s, d.len()).unwrap();
                if &cur != d {
                    let first = cur.iter().zip(d.iter()).position(|(a, b)| a != b).unwrap();
                    let a = s + first as u64;
                    let n = 16.min(d.len() - first);
                    v.push(format!("at {:#x}: now {:02x?}, originally {:02x?}", a, &cur[first..first + n], &d[first..first + n]));
                }
            }
            v
        });
        if !diffs.is_empty() {
            let mut props = vec!["C02"];
            if lt.exit_panic {
                props.push("C05");
            }
            if arch == Arch::Arm {
                // C16: "the saved original bytes cover exactly the overwritten range"
                props.push("C16");
            }
            let rep: Vec<usize> = (0..sc.targets.len()).filter(|t| lt.ops.iter().filter(|o| o.target == *t).count() > 1).collect();
            ck.viol("not-restored-after-scope-exit", &props, format!("{what}: text differs from the original image {:?}; targets faked more than once in this lifetime: {:?}", diffs, rep));
        }
        let left = with_world(|w| w.injector_regions());
        if !left.is_empty() {
            ck.viol("mapping-leaked-after-scope-exit", &["C12"], format!("{what}: injector mappings still present: {:x?}", left));
        }
        ck.verify_all(&what);
        // later lifetimes would inherit the damage and be misattributed: stop at the first
        // violation that concerns the property being checked (VERIF_WANT_PROP), or at any
        // violation when no property was named
        let want = std::env::var("VERIF_WANT_PROP").ok();
        let stop = ck.out.violations.iter().any(|v| {
            !v.tag.starts_with("redirect-clobbers-register")
                && match &want {
                    Some(p) => v.props.iter().any(|x| x == p),
                    None => true,
                }
        });
        if stop {
            break;
        }
    }
    let w = world::take_world().unwrap();
    ck.out.digest = w.digest;
    ck.out.events = w.counters.events;
    let c = &w.counters;
    let mut f = |k: &str, v: u64| {
        if v > 0 {
            *ck.out.faults.entry(k.to_string()).or_insert(0) += v;
        }
    };
    f("mmap_injected_enomem", c.mmap_injected_fail);
    f("mmap_hint_occupied_fallback", c.mmap_fallback);
    f("mmap_failed_total", c.mmap_failed);
    f("mprotect_injected_fail", c.mprotect_injected_fail);
    f("placement_rejected_and_unmapped", c.rejected_pairs);
    let oc = ck.obs_count.get();
    if oc > 0 {
        ck.out.probes.insert("calls_interleaved_at_os_call_boundaries".into(), oc);
    }
    f("simulated_sigsegv", c.segv);
    if sc.lifetimes.iter().any(|l| l.exit_panic) {
        f("injected_panic_at_scope_exit", sc.lifetimes.iter().filter(|l| l.exit_panic).count() as u64);
    }
    ck.out
}
