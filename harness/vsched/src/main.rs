//! vsched — runner for engine T scenarios: the injector's interface layer with std::sync swapped
//! for the scheduler-owned primitives of `simsched`, patching real functions, under seeded
//! interleavings (DESIGN 2.4).  Every scenario runs in a forked child.
//!
//!   vsched run --prop C04 --family excl --profile C04 --seed 1 --count N --shard i/n
//!   vsched replay FILE

#[path = "../../vnative/src/contain.rs"]
mod contain;
mod arms_gen;
mod scen;

use contain::*;
use serde_json::{json, Value};
use std::collections::{BTreeMap, BTreeSet};

fn arg<'a>(args: &'a [String], name: &str) -> Option<&'a str> {
    args.iter().position(|a| a == name).and_then(|i| args.get(i + 1)).map(|s| s.as_str())
}

fn fnv(s: &str) -> u64 {
    let mut h = 0xcbf2_9ce4_8422_2325u64;
    for b in s.bytes() {
        h ^= b as u64;
        h = h.wrapping_mul(0x100_0000_01b3);
    }
    h
}

fn mix(a: u64, b: u64) -> u64 {
    let mut s = a ^ b.wrapping_mul(0x9E37_79B9_7F4A_7C15);
    simos::rng::splitmix64(&mut s)
}

fn run_one(scv: &Value, sh: &Shared) -> Value {
    sh.clear();
    let sc: scen::TScenario = match serde_json::from_value(scv.clone()) {
        Ok(s) => s,
        Err(e) => return json!({"invalid": format!("{e}")}),
    };
    match run_contained(120, || scen::execute(&sc, sh)) {
        ChildEnd::Report(v) => v,
        ChildEnd::Signal(s) => json!({
            "violations": [{"tag": format!("died-with-signal[{}]", signal_name(s)), "props": scen::props_for(&sc.family, &sc.profile), "detail": format!("the simulated process was killed by {} (progress note {} {} {})", signal_name(s), sh.get(0), sh.get(1), sh.get(2))}],
            "digest": format!("{:016x}", 0xDEADu64 + s as u64), "died": signal_name(s)}),
        ChildEnd::Exit(3) => {
            // deadlock / step overrun: the child left its report in the shared page
            let steps = sh.get(8);
            let kind = if sh.get(9) == 1 { "step-budget-exhausted" } else { "deadlock" };
            json!({
                "violations": [{"tag": format!("liveness[{kind}]"), "props": scen::props_for(&sc.family, &sc.profile), "detail": format!("{kind} after {steps} scheduler steps: no thread can make progress although all faults have been injected")}],
                "digest": format!("{:016x}", 0xD1Du64 + steps), "steps": steps})
        }
        ChildEnd::Exit(c) => json!({"violations": [], "harness_error": format!("child exit {c}")}),
        ChildEnd::NoReport => json!({"violations": [], "harness_error": "no report"}),
    }
}

fn main() {
    contain::ensure_no_aslr();
    let args: Vec<String> = std::env::args().collect();
    std::panic::set_hook(Box::new(|_| {
        scen::PANICS.fetch_add(1, std::sync::atomic::Ordering::SeqCst);
    }));
    let sh = Shared::new();
    match args.get(1).map(|s| s.as_str()) {
        Some("gen") => {
            let sc = scen::generate(arg(&args, "--family").unwrap(), arg(&args, "--profile").unwrap(), arg(&args, "--seed").unwrap_or("1").parse().unwrap(), arg(&args, "--index").unwrap_or("0").parse().unwrap());
            println!("{}", serde_json::to_string_pretty(&sc).unwrap());
        }
        Some("replay") => {
            let text = std::fs::read_to_string(&args[2]).expect("read replay file");
            let v: Value = serde_json::from_str(&text).expect("parse replay file");
            let scv = if v.get("scenario").is_some() { v["scenario"].clone() } else { v };
            println!("{}", run_one(&scv, &sh));
        }
        Some("run") => {
            let profile = arg(&args, "--profile").unwrap().to_string();
            let family = arg(&args, "--family").unwrap().to_string();
            let seed: u64 = arg(&args, "--seed").unwrap_or("1").parse().unwrap();
            let count: u64 = arg(&args, "--count").unwrap().parse().unwrap();
            let shard = arg(&args, "--shard").unwrap_or("0/1");
            let (si, sn) = {
                let mut it = shard.split('/');
                (it.next().unwrap().parse::<u64>().unwrap(), it.next().unwrap().parse::<u64>().unwrap())
            };
            let want_prop = arg(&args, "--prop").map(|s| s.to_string());
            let mut evaluations = 0u64;
            let mut nontrivial = 0u64;
            let mut distinct: BTreeSet<u64> = BTreeSet::new();
            let mut interleavings: BTreeSet<u64> = BTreeSet::new();
            let mut faults: BTreeMap<String, u64> = BTreeMap::new();
            let mut probes: BTreeMap<String, u64> = BTreeMap::new();
            let mut steps = 0u64;
            let mut digest_sum = 0u64;
            let mut violations = Vec::new();
            let mut per_tag: BTreeMap<String, u32> = BTreeMap::new();
            let mut other: BTreeMap<String, u64> = BTreeMap::new();
            let mut samples = Vec::new();
            let mut idx = si;
            while idx < count {
                let scv: Value = serde_json::to_value(scen::generate(&family, &profile, seed, idx)).unwrap();
                let out = run_one(&scv, &sh);
                if out.get("harness_error").is_some() {
                    println!("HARNESS-ERROR vsched: scenario {idx}: {out}");
                    std::process::exit(2);
                }
                evaluations += 1;
                let d = u64::from_str_radix(out["digest"].as_str().unwrap_or("0"), 16).unwrap_or(0);
                digest_sum = digest_sum.wrapping_add(mix(idx, d));
                steps += out["steps"].as_u64().unwrap_or(0);
                if out["choice_points"].as_u64().unwrap_or(0) > 0 || out.get("died").is_some() {
                    nontrivial += 1;
                    let cls: Vec<String> = scv["classes"].as_array().map(|a| a.iter().map(|x| x.as_str().unwrap_or("").to_string()).collect()).unwrap_or_default();
                    distinct.insert(fnv(&cls.join(",")));
                    if let Some(h) = out["trace_hash"].as_str() {
                        interleavings.insert(u64::from_str_radix(h, 16).unwrap_or(0));
                    }
                }
                for (key, acc) in [("faults", &mut faults), ("probes", &mut probes)] {
                    if let Some(o) = out[key].as_object() {
                        for (k, v) in o {
                            *acc.entry(k.clone()).or_insert(0) += v.as_u64().unwrap_or(0);
                        }
                    }
                }
                if let Some(vs) = out["violations"].as_array() {
                    for v in vs {
                        let props: Vec<String> = v["props"].as_array().map(|a| a.iter().map(|x| x.as_str().unwrap_or("").to_string()).collect()).unwrap_or_default();
                        let mine = match &want_prop {
                            Some(p) => props.iter().any(|x| x == p),
                            None => true,
                        };
                        let tag = v["tag"].as_str().unwrap_or("").to_string();
                        if mine {
                            let n = per_tag.entry(tag.clone()).or_insert(0);
                            *n += 1;
                            if *n <= 2 && violations.len() < 40 {
                                violations.push(json!({"index": idx, "violation": v, "digest": out["digest"], "scenario": scv}));
                            }
                        } else {
                            *other.entry(format!("{}:{}", props.join("+"), tag)).or_insert(0) += 1;
                        }
                    }
                }
                if samples.len() < 2 && si == 0 {
                    samples.push(scv.clone());
                }
                idx += sn;
            }
            let mut per_variant = BTreeMap::new();
            per_variant.insert("sched(x86_64-linux)".to_string(), evaluations);
            // distinct = distinct interleavings (hash of the (thread, point kind) sequence) of non-trivial runs
            let mut dist: Vec<String> = interleavings.iter().map(|h| format!("{h:x}")).collect();
            dist.extend(distinct.iter().map(|h| format!("c{h:x}")));
            println!(
                "{}",
                json!({
                    "evaluations": evaluations,
                    "nontrivial": nontrivial,
                    "distinct": dist,
                    "faults": faults,
                    "probes": probes,
                    "per_variant": per_variant,
                    "events": 0,
                    "steps": steps,
                    "digest_sum": format!("{digest_sum:016x}"),
                    "violations": violations,
                    "other_prop_violations": other,
                    "samples": samples,
                    "extra": {"distinct_interleavings": interleavings.len(), "distinct_scenario_classes": distinct.len(), "scheduler_steps": steps},
                })
            );
        }
        _ => {
            eprintln!("usage: vsched run|replay|gen ...");
            std::process::exit(2);
        }
    }
}
