//! Engine T scenarios: families "excl" (C04), "count" (C06 concurrent part), "handover" (C05
//! second stage).

use crate::contain::*;
use ipp_sched::interface::injector::*;
use serde::{Deserialize, Serialize};
use serde_json::{json, Value};
use simos::rng::Rng;
use simsched::{Config, Strategy};
use std::hint::black_box;
use std::panic::{catch_unwind, AssertUnwindSafe};
use std::sync::atomic::{AtomicUsize, Ordering};
use std::sync::Mutex as StdMutex;

pub static PANICS: AtomicUsize = AtomicUsize::new(0);
static IN_CS: AtomicUsize = AtomicUsize::new(0);
static N_EXPECT: AtomicUsize = AtomicUsize::new(0);
static VIOL: StdMutex<Vec<(String, String)>> = StdMutex::new(Vec::new());
static FAULTS: StdMutex<Vec<String>> = StdMutex::new(Vec::new());
static OUTCOMES: StdMutex<Vec<(usize, u32, i32)>> = StdMutex::new(Vec::new());

fn viol(tag: &str, detail: String) {
    let mut v = VIOL.lock().unwrap_or_else(|p| p.into_inner());
    if v.len() < 16 && !v.iter().any(|(t, _)| t == tag) {
        v.push((tag.to_string(), detail));
    }
}
thread_local! {
    /// number of mprotect calls of this thread to let through before refusing one (-1 = none)
    static MPROTECT_FAIL_AT: std::cell::Cell<i64> = const { std::cell::Cell::new(-1) };
    static MPROTECT_FIRED: std::cell::Cell<bool> = const { std::cell::Cell::new(false) };
}

/// Link-time interposer: the crate under test reaches the kernel's mprotect through here, so one
/// call of an installation can be refused (EACCES / ENOMEM on a VMA split are what a real kernel
/// answers).
#[no_mangle]
pub unsafe extern "C" fn mprotect(addr: *mut libc::c_void, len: libc::size_t, prot: i32) -> i32 {
    let refuse = MPROTECT_FAIL_AT
        .try_with(|c| {
            let k = c.get();
            if k == 0 {
                c.set(-1);
                true
            } else {
                if k > 0 {
                    c.set(k - 1);
                }
                false
            }
        })
        .unwrap_or(false);
    if refuse {
        let _ = MPROTECT_FIRED.try_with(|f| f.set(true));
        *libc::__errno_location() = libc::ENOMEM;
        return -1;
    }
    libc::syscall(libc::SYS_mprotect, addr, len, prot) as i32
}

// ---- family "sigrace": pointers with their types are made by several threads at the same time ----
macro_rules! sr_fns {
    ($t:ident, $f:ident, $o:ident, $a:ty, $b:ty) => {
        #[inline(never)]
        fn $t(x: $a) -> $a {
            black_box(x)
        }
        #[inline(never)]
        fn $f(x: $a) -> $a {
            black_box(x)
        }
        #[inline(never)]
        fn $o(x: $b) -> $b {
            black_box(x)
        }
    };
}
sr_fns!(sr_t0, sr_f0, sr_o0, u8, i16);
sr_fns!(sr_t1, sr_f1, sr_o1, u16, i64);
sr_fns!(sr_t2, sr_f2, sr_o2, i8, u64);
sr_fns!(sr_t3, sr_f3, sr_o3, i32, f32);

/// One thread: makes its typed pointers (no injector is held: `func!` needs none), then, under its
/// own injector, offers a replacement of another type (must be refused) and one of the same type
/// (must be accepted).
fn sigrace_thread(ti: usize, y: u32) {
    macro_rules! go {
        ($t:ident, $f:ident, $o:ident, $a:ty, $b:ty) => {{
            yields(y);
            let t1 = ipp_sched::func!($t, fn($a) -> $a);
            let other = ipp_sched::func!($o, fn($b) -> $b);
            yields(1);
            let t2 = ipp_sched::func!(fn ($t)($a) -> $a);
            let same = ipp_sched::closure!(|x| x, fn($a) -> $a);
            let _ = ipp_sched::func!($f, fn($a) -> $a);
            let mut inj = InjectorPP::new();
            let what = format!("thread {ti}: function of type `{}`", stringify!(fn($a) -> $a));
            match catch_unwind(AssertUnwindSafe(|| inj.when_called(t1).will_execute_raw(other))) {
                Ok(()) => viol("structurally-different-signature-accepted", format!("{what}: a replacement of type `{}` was accepted", stringify!(fn($b) -> $b))),
                Err(p) => {
                    let m = panic_msg(&p);
                    if !m.contains("Signature mismatch") {
                        viol("refusal-with-wrong-message", format!("{what}: {m}"));
                    }
                }
            }
            if let Err(p) = catch_unwind(AssertUnwindSafe(|| inj.when_called(t2).will_execute_raw(same))) {
                viol("identical-signature-refused", format!("{what}: a replacement of the same type was refused: {}", panic_msg(&p)));
            }
            drop(inj);
        }};
    }
    match ti % 4 {
        0 => go!(sr_t0, sr_f0, sr_o0, u8, i16),
        1 => go!(sr_t1, sr_f1, sr_o1, u16, i64),
        2 => go!(sr_t2, sr_f2, sr_o2, i8, u64),
        _ => go!(sr_t3, sr_f3, sr_o3, i32, f32),
    }
}

/// profile C10: injector rounds also force this function to `true`
static BOOL_MODE: std::sync::atomic::AtomicBool = std::sync::atomic::AtomicBool::new(false);
#[inline(never)]
pub fn sh_flag() -> bool {
    black_box(false)
}

#[inline(never)]
fn os_fake(x: u32) -> u32 {
    black_box(x) + 40
}

fn fault(k: &str) {
    FAULTS.lock().unwrap_or_else(|p| p.into_inner()).push(k.to_string());
}

#[inline(never)]
pub fn sh_fn() -> u32 {
    black_box(6)
}
#[inline(never)]
pub fn ct_fn(x: u32) -> u32 {
    black_box(x) + 1
}
#[inline(never)]
fn fake_const<const K: u32>() -> u32 {
    black_box(K)
}
fn fake_for(i: usize) -> FuncPtr {
    match i % 6 {
        0 => ipp_sched::func!(fake_const::<100>, fn() -> u32),
        1 => ipp_sched::func!(fake_const::<101>, fn() -> u32),
        2 => ipp_sched::func!(fake_const::<102>, fn() -> u32),
        3 => ipp_sched::func!(fake_const::<103>, fn() -> u32),
        4 => ipp_sched::func!(fake_const::<104>, fn() -> u32),
        _ => ipp_sched::func!(fake_const::<105>, fn() -> u32),
    }
}
fn counted_site() -> (FuncPtr, CallCountVerifier) {
    ipp_sched::fake!(
        func_type: fn(x: u32) -> u32,
        when: x < 100,
        returns: x + 7000,
        times: crate::scen::N_EXPECT.load(std::sync::atomic::Ordering::SeqCst)
    )
}

#[derive(Serialize, Deserialize, Clone, Debug, PartialEq)]
pub struct Round {
    /// injector | preventer
    pub kind: String,
    pub calls: u32,
    /// drop | panic | overcall | refused (handover family: how the holder lets go)
    pub exit: String,
    /// explicit yields between the harness steps inside the guard's lifetime
    pub yields: u32,
}

#[derive(Serialize, Deserialize, Clone, Debug, PartialEq)]
pub struct TScenario {
    pub engine: String,
    pub family: String,
    pub profile: String,
    pub variant: String,
    pub seed: u64,
    pub index: u64,
    /// random | sticky:<den> | pct:<d>
    pub strategy: String,
    pub sched_seed: u64,
    /// per thread: rounds (excl, handover)
    pub threads: Vec<Vec<Round>>,
    /// count family: expected count and per-thread call arguments
    pub n: usize,
    pub calls: Vec<Vec<u32>>,
    pub classes: Vec<String>,
}

/// arms family: does this scenario end with one call beyond the budget?
fn arms_over(index: u64, k: usize) -> bool {
    crate::arms_gen::ARM_COUNT > 0 && (index as usize / crate::arms_gen::ARM_COUNT) % 2 == 1 && !crate::arms_gen::arm_name(k).contains("extern")
}

pub fn props_for(family: &str, profile: &str) -> Vec<&'static str> {
    if profile == "C10" {
        // forced booleans under the exclusion/hand-over schedules: an accepted value is what every
        // call returns while its injector lives, whatever other threads attempt meanwhile
        return vec!["C10"];
    }
    match family {
        "excl" => vec!["C04"],
        "count" => vec!["C06"],
        // C06 profile: the counter is zeroed by the harness, so only the accounting itself is judged
        "sigrace" => vec!["C09"],
        "sharedsite" if profile == "C06" => vec!["C06"],
        // C04: "a thread holding an injector observes exactly its own fakes, whatever other threads
        // attempt meanwhile" -- including the verdict on its own calls, given while it still holds it
        "sharedsite" if profile == "C04" => vec!["C04"],
        "sharedsite" => vec!["C07"],
        "arms" => vec!["C06", "C08"],
        _ => vec!["C05", "C04"],
    }
}

pub fn generate(family: &str, profile: &str, seed: u64, index: u64) -> TScenario {
    let mut rng = Rng::new(simos::rng::scenario_seed(seed, &format!("T/{family}/{profile}"), index));
    let strategy = match rng.below(4) {
        0 => "random".to_string(),
        1 => format!("sticky:{}", 2 + rng.below(12)),
        2 => format!("pct:{}", 1 + rng.below(4)),
        _ => format!("sticky:{}", 20 + rng.below(40)),
    };
    let sched_seed = rng.next_u64();
    let mut classes = vec![strategy.split(':').next().unwrap().to_string()];
    let mut threads: Vec<Vec<Round>> = Vec::new();
    let mut calls: Vec<Vec<u32>> = Vec::new();
    let mut n = 0usize;
    match family {
        "excl" => {
            let nt = 2 + rng.below(3) as usize;
            for _ in 0..nt {
                let nr = 1 + rng.below(4) as usize;
                let mut rounds = Vec::new();
                for _ in 0..nr {
                    let kind = if rng.chance(1, 2) { "injector" } else { "preventer" };
                    let exit = if rng.chance(1, 4) {
                        "panic"
                    } else if kind == "injector" && rng.chance(1, 5) {
                        // a further installation during which the k-th mprotect is refused
                        *rng.pick(&["osfault0", "osfault1", "osfault2"])
                    } else {
                        "drop"
                    };
                    classes.push(format!("{kind}-{exit}"));
                    rounds.push(Round { kind: kind.into(), calls: 1 + rng.below(3) as u32, exit: exit.into(), yields: rng.below(3) as u32 });
                }
                threads.push(rounds);
            }
            classes.push(format!("threads{nt}"));
        }
        "count" => {
            n = rng.below(7) as usize;
            let k = rng.below(n as u64 + 3) as usize;
            let many = rng.chance(1, 4);
            let nt = 1 + rng.below(if many { 16 } else { 5 }) as usize;
            calls = vec![Vec::new(); nt];
            for _ in 0..k {
                let t = rng.below(nt as u64) as usize;
                calls[t].push(rng.below(100) as u32);
            }
            let rej = rng.below(4) as usize;
            for _ in 0..rej {
                let t = rng.below(nt as u64) as usize;
                let pos = rng.below(calls[t].len() as u64 + 1) as usize;
                calls[t].insert(pos, 100 + rng.below(900) as u32);
            }
            classes.push(format!("N{n}-m{k}-rej{rej}-threads{}", nt.min(16)));
        }
        "arms" => {
            // every counted arm of fake! (generated from the macro source): exactly N calls in all,
            // split over 2-4 threads; nothing may be lost or double-counted
            let nt = 2 + rng.below(3) as usize;
            calls = vec![Vec::new(); nt];
            n = 2 + rng.below(7) as usize;
            for _ in 0..n {
                let t = rng.below(nt as u64) as usize;
                calls[t].push(rng.below(100) as u32);
            }
            classes.push(format!("arm{}-N{n}-threads{nt}", if crate::arms_gen::ARM_COUNT > 0 { index as usize % crate::arms_gen::ARM_COUNT } else { 0 }));
        }
        "sigrace" => {
            // 2-4 threads make their typed pointers concurrently; `calls[t][0]` = yields before starting
            let nt = 2 + rng.below(3) as usize;
            for _ in 0..nt {
                calls.push(vec![rng.below(4) as u32]);
            }
            classes.push(format!("sigrace-threads{nt}"));
        }
        "sharedsite" => {
            // 2-4 threads, each 1-3 lifetimes built by the SAME fake!(.., times: N) line (a shared
            // set-up helper), making exactly N calls, fewer, or more
            let nt = 2 + rng.below(3) as usize;
            n = 1 + rng.below(2) as usize;
            for _ in 0..nt {
                let nr = 1 + rng.below(3) as usize;
                let mut rounds = Vec::new();
                for _ in 0..nr {
                    let c = *rng.pick(&[n as u32, n as u32, n as u32, n as u32 - 1, n as u32 + 1]);
                    rounds.push(Round { kind: "counted".into(), calls: c, exit: "drop".into(), yields: rng.below(2) as u32 });
                }
                threads.push(rounds);
            }
            classes.push(format!("sharedsite-N{n}-threads{nt}"));
        }
        _ => {
            // handover: thread 0 holds an injector and lets go in some way; 1-2 waiters
            let exit = *rng.pick(&["panic", "overcall", "rejected", "refused", "unsatisfied", "drop", "osfault0", "osfault1", "osfault2"]);
            threads.push(vec![Round { kind: "injector".into(), calls: 1 + rng.below(3) as u32, exit: exit.into(), yields: rng.below(4) as u32 }]);
            let nw = 1 + rng.below(2) as usize;
            for _ in 0..nw {
                let kind = if rng.chance(2, 3) { "injector" } else { "preventer" };
                threads.push(vec![Round { kind: kind.into(), calls: 1 + rng.below(2) as u32, exit: if rng.chance(1, 5) { "panic".into() } else { "drop".into() }, yields: rng.below(2) as u32 }]);
            }
            classes.push(format!("holder-{exit}-waiters{nw}"));
        }
    }
    classes.sort();
    classes.dedup();
    TScenario {
        engine: "T".into(),
        family: family.into(),
        profile: profile.into(),
        variant: "sched(x86_64-linux)".into(),
        seed,
        index,
        strategy,
        sched_seed,
        threads,
        n,
        calls,
        classes,
    }
}

fn parse_strategy(s: &str) -> Strategy {
    let mut it = s.split(':');
    match (it.next(), it.next().and_then(|x| x.parse::<u32>().ok())) {
        (Some("sticky"), Some(d)) => Strategy::Sticky { den: d.max(2) },
        (Some("pct"), Some(d)) => Strategy::Pct { d },
        _ => Strategy::Random,
    }
}

struct Injected;

fn panic_msg(p: &Box<dyn std::any::Any + Send>) -> String {
    if let Some(s) = p.downcast_ref::<String>() {
        s.clone()
    } else if let Some(s) = p.downcast_ref::<&str>() {
        s.to_string()
    } else if p.is::<Injected>() {
        "<injected>".into()
    } else {
        "<non-string payload>".into()
    }
}

fn yields(n: u32) {
    for _ in 0..n {
        simsched::thread::yield_now();
    }
}

/// One round of a thread in the excl / handover families.
fn do_round(tid: usize, ri: usize, r: &Round, handover_holder: bool) {
    let what = format!("thread {tid} round {ri} ({} / {})", r.kind, r.exit);
    let res = catch_unwind(AssertUnwindSafe(|| {
        if r.kind == "injector" {
            // every public way of obtaining an injector takes the process-wide guard
            let mut inj = if (tid + ri + r.calls as usize) % 3 == 1 { InjectorPP::default() } else { InjectorPP::new() };
            let c = IN_CS.fetch_add(1, Ordering::SeqCst) + 1;
            if c > 1 {
                viol("two-guards-live-at-once", format!("{what}: obtained an injector while {} other guard(s) were live", c - 1));
            }
            // the previous holder must have restored everything before we got the guard
            let v0 = black_box(sh_fn as fn() -> u32)();
            if v0 != 6 {
                viol("guard-obtained-before-previous-holder-restored", format!("{what}: on obtaining the injector the shared function returned {v0}, not the original 6"));
            }
            let c0 = black_box(ct_fn as fn(u32) -> u32)(1);
            if c0 != 2 {
                viol("guard-obtained-before-previous-holder-restored", format!("{what}: on obtaining the injector ct_fn(1) returned {c0}, not the original 2"));
            }
            let bool_mode = BOOL_MODE.load(std::sync::atomic::Ordering::SeqCst);
            if bool_mode && black_box(sh_flag as fn() -> bool)() {
                viol("guard-obtained-before-previous-holder-restored", format!("{what}: on obtaining the injector sh_flag() returned the value forced by somebody else"));
            }
            yields(r.yields);
            inj.when_called(ipp_sched::func!(fn (sh_fn)() -> u32)).will_execute_raw(fake_for(tid));
            if bool_mode {
                inj.when_called(ipp_sched::func!(fn (sh_flag)() -> bool)).will_return_boolean(true);
            }
            let mut counted = false;
            if handover_holder && matches!(r.exit.as_str(), "overcall" | "rejected" | "unsatisfied") {
                N_EXPECT.store(1, Ordering::SeqCst);
                inj.when_called(ipp_sched::func!(fn (ct_fn)(u32) -> u32)).will_execute(counted_site());
                counted = true;
            }
            for _ in 0..r.calls {
                simsched::thread::yield_now();
                let v = black_box(sh_fn as fn() -> u32)();
                if v != 100 + (tid % 6) as u32 {
                    viol("injector-holder-observed-foreign-behaviour", format!("{what}: the holder's own fake should answer {} but the call returned {v}", 100 + tid % 6));
                }
                if bool_mode && !black_box(sh_flag as fn() -> bool)() {
                    viol("forced-boolean-not-returned", format!("{what}: sh_flag() was forced to true through this injector but returned false"));
                }
            }
            yields(r.yields);
            IN_CS.fetch_sub(1, Ordering::SeqCst);
            match r.exit.as_str() {
                "panic" => {
                    fault("panic_while_holding_injector");
                    std::panic::panic_any(Injected)
                }
                "overcall" if counted => {
                    fault("over_call_while_holding_injector");
                    let _ = black_box(ct_fn as fn(u32) -> u32)(1);
                    let _ = black_box(ct_fn as fn(u32) -> u32)(2); // panics
                }
                "rejected" if counted => {
                    fault("fake_rejects_arguments_while_holding_injector");
                    let _ = black_box(ct_fn as fn(u32) -> u32)(1);
                    let _ = black_box(ct_fn as fn(u32) -> u32)(500); // panics
                }
                "refused" => {
                    fault("refused_install_while_holding_injector");
                    inj.when_called(ipp_sched::func!(fn (ct_fn)(u32) -> u32)).will_execute_raw(ipp_sched::closure!(|| 1u32, fn() -> u32));
                }
                "unsatisfied" => {
                    fault("unsatisfied_expectation_at_scope_exit");
                    // falls out of scope with 0 of 1 calls: the drop panics
                }
                e if e.starts_with("osfault") && !counted => {
                    let k: i64 = e[7..].parse().unwrap_or(0);
                    MPROTECT_FIRED.with(|f| f.set(false));
                    MPROTECT_FAIL_AT.with(|c| c.set(k));
                    let r = catch_unwind(AssertUnwindSafe(|| {
                        inj.when_called(ipp_sched::func!(fn (ct_fn)(u32) -> u32)).will_execute_raw(ipp_sched::func!(fn (os_fake)(u32) -> u32));
                    }));
                    MPROTECT_FAIL_AT.with(|c| c.set(-1));
                    let fired = MPROTECT_FIRED.with(|f| f.get());
                    if fired {
                        fault("mprotect_refused_during_installation");
                    }
                    match r {
                        Ok(()) => {
                            let v = black_box(ct_fn as fn(u32) -> u32)(1);
                            // reported success (with or without a refused call): the function is faked
                            if v != 41 {
                                viol("injector-holder-observed-foreign-behaviour", format!("{what}: the second fake should answer 41 but ct_fn(1) returned {v}"));
                            }
                        }
                        Err(p) => {
                            if !fired {
                                std::panic::resume_unwind(p);
                            }
                            // the refused installation leaves the function alone, then the holder unwinds
                            let v = black_box(ct_fn as fn(u32) -> u32)(1);
                            if v != 2 {
                                viol("refused-installation-left-function-redirected", format!("{what}: after the refused installation ct_fn(1) returned {v}, not the original 2"));
                            }
                            std::panic::resume_unwind(p);
                        }
                    }
                }
                _ => {}
            }
            drop(inj);
        } else {
            let g = InjectorPP::prevent();
            let c = IN_CS.fetch_add(1, Ordering::SeqCst) + 1;
            if c > 1 {
                viol("two-guards-live-at-once", format!("{what}: obtained a preventer while {} other guard(s) were live", c - 1));
            }
            for _ in 0..r.calls {
                yields(1 + r.yields);
                let v = black_box(sh_fn as fn() -> u32)();
                if v != 6 {
                    viol("preventer-holder-observed-fake", format!("{what}: while holding a preventer the shared function returned {v}, not the original 6"));
                }
                let c0 = black_box(ct_fn as fn(u32) -> u32)(1);
                if c0 != 2 {
                    viol("preventer-holder-observed-fake", format!("{what}: while holding a preventer ct_fn(1) returned {c0}, not the original 2"));
                }
                if BOOL_MODE.load(std::sync::atomic::Ordering::SeqCst) && black_box(sh_flag as fn() -> bool)() {
                    viol("preventer-holder-observed-fake", format!("{what}: while holding a preventer sh_flag() returned a forced value"));
                }
            }
            IN_CS.fetch_sub(1, Ordering::SeqCst);
            if r.exit == "panic" {
                fault("panic_while_holding_preventer");
                std::panic::panic_any(Injected);
            }
            drop(g);
        }
    }));
    if let Err(p) = res {
        let msg = panic_msg(&p);
        let expected = match r.exit.as_str() {
            "panic" => msg == "<injected>",
            "overcall" => msg.contains("more times than expected"),
            "rejected" => msg.contains("unexpected arguments"),
            "refused" => msg.contains("Signature mismatch"),
            "unsatisfied" => msg.contains("expected to be called"),
            e if e.starts_with("osfault") => msg.contains("mprotect"),
            _ => false,
        };
        if !expected {
            viol("unexpected-panic-in-round", format!("{what}: {msg}"));
        }
    } else if matches!(r.exit.as_str(), "panic" | "refused") || (handover_holder && matches!(r.exit.as_str(), "overcall" | "rejected" | "unsatisfied")) {
        viol("expected-panic-did-not-happen", format!("{what}: completed normally"));
    }
}

pub fn execute(sc: &TScenario, sh: &Shared) -> Value {
    BOOL_MODE.store(sc.profile == "C10", std::sync::atomic::Ordering::SeqCst);
    let entry0: Vec<u8> = unsafe { std::slice::from_raw_parts(sh_fn as fn() -> u32 as usize as *const u8, 16).to_vec() };
    let cfg = Config { seed: sc.sched_seed, strategy: parse_strategy(&sc.strategy), max_steps: 200_000, forced: None };
    let sh_ptr = sh as *const Shared as usize;
    let on_fatal = Box::new(move |rep: &simsched::Report| {
        let sh = unsafe { &*(sh_ptr as *const Shared) };
        sh.set(8, rep.steps);
        sh.set(9, rep.step_overrun as u64);
    });
    unsafe { libc::alarm(100) };
    let scn = sc.clone();
    let exit_verdict: std::sync::Arc<StdMutex<Option<Result<(), String>>>> = std::sync::Arc::new(StdMutex::new(None));
    let ev2 = exit_verdict.clone();
    let rep = simsched::run(cfg, on_fatal, move || match scn.family.as_str() {
        "count" => {
            N_EXPECT.store(scn.n, Ordering::SeqCst);
            let pair = counted_site();
            if let CallCountVerifier::WithCount { counter, .. } = &pair.1 {
                counter.store(0, simsched::sync::atomic::Ordering::SeqCst);
            }
            let mut inj = InjectorPP::new();
            inj.when_called(ipp_sched::func!(fn (ct_fn)(u32) -> u32)).will_execute(pair);
            let mut hs = Vec::new();
            for (ti, args) in scn.calls.iter().enumerate() {
                let args = args.clone();
                hs.push(simsched::thread::spawn(move || {
                    for a in args {
                        let r = catch_unwind(AssertUnwindSafe(|| black_box(ct_fn as fn(u32) -> u32)(a)));
                        let code = match r {
                            Ok(v) if v == a + 7000 => 0,
                            Ok(_) => -1,
                            Err(p) => {
                                let m = panic_msg(&p);
                                if m.contains("more times than expected") {
                                    1
                                } else if m.contains("unexpected arguments") {
                                    2
                                } else {
                                    -2
                                }
                            }
                        };
                        OUTCOMES.lock().unwrap_or_else(|p| p.into_inner()).push((ti, a, code));
                    }
                }));
            }
            for h in hs {
                let _ = h.join();
            }
            let r = catch_unwind(AssertUnwindSafe(move || drop(inj)));
            *ev2.lock().unwrap() = Some(r.map_err(|p| panic_msg(&p)));
        }
        "arms" => {
            if crate::arms_gen::ARM_COUNT == 0 {
                viol("arms-family-skipped", "the fake! macro could not be parsed by the generator".into());
                return;
            }
            let k = scn.index as usize % crate::arms_gen::ARM_COUNT;
            crate::arms_gen::ARMS_N.store(scn.n, Ordering::SeqCst);
            let mut inj = InjectorPP::new();
            crate::arms_gen::install(k, &mut inj);
            let mut hs = Vec::new();
            for (ti, args) in scn.calls.iter().enumerate() {
                let args = args.clone();
                hs.push(simsched::thread::spawn(move || {
                    for a in args {
                        simsched::thread::yield_now();
                        let ok = crate::arms_gen::call(k, a);
                        OUTCOMES.lock().unwrap_or_else(|p| p.into_inner()).push((ti, a, if ok { 0 } else { 1 }));
                    }
                }));
            }
            for h in hs {
                let _ = h.join();
            }
            // every other pass over the arms: one more matching call once the budget is used up
            // (arms with a Rust ABI only: a panic cannot leave an `extern "C"` fake)
            if arms_over(scn.index, k) {
                let ok = crate::arms_gen::call(k, 7);
                OUTCOMES.lock().unwrap_or_else(|p| p.into_inner()).push((usize::MAX, 7, if ok { 0 } else { 1 }));
            }
            let r = catch_unwind(AssertUnwindSafe(move || drop(inj)));
            *ev2.lock().unwrap() = Some(r.map_err(|p| panic_msg(&p)));
        }
        "sigrace" => {
            let mut hs = Vec::new();
            for (ti, c) in scn.calls.iter().enumerate().skip(1) {
                let y = c.first().copied().unwrap_or(0);
                hs.push(simsched::thread::spawn(move || sigrace_thread(ti, y)));
            }
            sigrace_thread(0, scn.calls.first().and_then(|c| c.first().copied()).unwrap_or(0));
            for h in hs {
                let _ = h.join();
            }
        }
        "sharedsite" => {
            N_EXPECT.store(scn.n, Ordering::SeqCst);
            let n = scn.n as u32;
            let zero = scn.profile == "C06";
            let body = move |ti: usize, rounds: Vec<Round>| {
                for (ri, r) in rounds.iter().enumerate() {
                    let mut admitted = 0u32;
                    let mut rejected = 0u32;
                    let res = catch_unwind(AssertUnwindSafe(|| {
                        // the expression is evaluated either before the injector exists (while
                        // another thread may be in the middle of its own lifetime) or after
                        let early = (ti + ri) % 2 == 0;
                        let mut pre = if early { Some(counted_site()) } else { None };
                        let mut inj = InjectorPP::new();
                        let pair = match pre.take() {
                            Some(p) => p,
                            None => counted_site(),
                        };
                        if zero {
                            if let CallCountVerifier::WithCount { counter, .. } = &pair.1 {
                                counter.store(0, Ordering::SeqCst);
                            }
                        }
                        inj.when_called(ipp_sched::func!(fn (ct_fn)(u32) -> u32)).will_execute(pair);
                        for c in 0..r.calls {
                            simsched::thread::yield_now();
                            match catch_unwind(AssertUnwindSafe(|| black_box(ct_fn as fn(u32) -> u32)(c))) {
                                Ok(v) if v == c + 7000 => admitted += 1,
                                Ok(v) => viol("counted-fake-wrong-value", format!("thread {ti} lifetime {ri}: call returned {v}")),
                                Err(_) => rejected += 1,
                            }
                        }
                        yields(r.yields);
                        drop(inj);
                    }));
                    let what = format!("thread {ti} lifetime {ri} (times: {n}, {} call(s) made in this lifetime, all under this thread's own injector)", r.calls);
                    if admitted != r.calls.min(n) || rejected != r.calls.saturating_sub(n) {
                        viol("calls-of-another-lifetime-counted", format!("{what}: {admitted} admitted and {rejected} rejected, expected {} and {}", r.calls.min(n), r.calls.saturating_sub(n)));
                    }
                    match res {
                        Ok(()) => {
                            if r.calls != n {
                                viol("count-mismatch-not-reported-at-scope-exit", format!("{what}: scope exit did not panic"));
                            }
                        }
                        Err(p) => {
                            let msg = panic_msg(&p);
                            let nums: Vec<usize> = msg.split(|c: char| !c.is_ascii_digit()).filter(|t| !t.is_empty()).filter_map(|t| t.parse().ok()).collect();
                            if r.calls == n {
                                viol("verdict-judged-on-another-lifetimes-calls", format!("{what}: scope exit panicked with {msg:?}"));
                            } else if !(nums.contains(&(n as usize)) && nums.contains(&(r.calls as usize))) {
                                viol("verdict-judged-on-another-lifetimes-calls", format!("{what}: scope exit message {msg:?} does not name {n} and {}", r.calls));
                            }
                        }
                    }
                }
            };
            let mut hs = Vec::new();
            for (ti, rounds) in scn.threads.iter().enumerate().skip(1) {
                let rounds = rounds.clone();
                let b = body.clone();
                hs.push(simsched::thread::spawn(move || b(ti, rounds)));
            }
            body(0, scn.threads[0].clone());
            for h in hs {
                let _ = h.join();
            }
        }
        fam => {
            let handover = fam != "excl";
            let mut hs = Vec::new();
            for (ti, rounds) in scn.threads.iter().enumerate().skip(1) {
                let rounds = rounds.clone();
                hs.push(simsched::thread::spawn(move || {
                    for (ri, r) in rounds.iter().enumerate() {
                        do_round(ti, ri, r, false);
                    }
                }));
            }
            for (ri, r) in scn.threads[0].iter().enumerate() {
                do_round(0, ri, r, handover);
            }
            for h in hs {
                let _ = h.join();
            }
        }
    });
    unsafe { libc::alarm(0) };
    // ---- verdicts after the run
    let mut out_v: Vec<Value> = Vec::new();
    let props = props_for(&sc.family, &sc.profile);
    for (t, d) in VIOL.lock().unwrap_or_else(|p| p.into_inner()).iter() {
        out_v.push(json!({"tag": t, "props": props, "detail": d}));
    }
    let entry1: Vec<u8> = unsafe { std::slice::from_raw_parts(sh_fn as fn() -> u32 as usize as *const u8, 16).to_vec() };
    if entry1 != entry0 || sh_fn() != 6 || ct_fn(1) != 2 || sh_flag() {
        out_v.push(json!({"tag": "not-restored-after-all-threads-finished", "props": props, "detail": format!("shared function entry {:02x?}, originally {:02x?}", entry1, entry0)}));
    }
    let mut probes = serde_json::Map::new();
    if sc.family == "count" {
        let outs = OUTCOMES.lock().unwrap_or_else(|p| p.into_inner()).clone();
        let matching: usize = sc.calls.iter().flatten().filter(|a| **a < 100).count();
        let nonmatching: usize = sc.calls.iter().flatten().filter(|a| **a >= 100).count();
        let ok = outs.iter().filter(|(_, a, c)| *c == 0 && *a < 100).count();
        let over = outs.iter().filter(|(_, a, c)| *c == 1 && *a < 100).count();
        let rej = outs.iter().filter(|(_, a, c)| *c == 2 && *a >= 100).count();
        let weird = outs.iter().filter(|(_, _, c)| *c < 0).count();
        let what = format!("N={}, {} matching and {} non-matching call(s) over {} thread(s): {} returned the fake's value, {} panicked as over-call, {} panicked as unexpected arguments, {} other", sc.n, matching, nonmatching, sc.calls.len(), ok, over, rej, weird);
        if ok != matching.min(sc.n) || over != matching.saturating_sub(sc.n) {
            out_v.push(json!({"tag": "concurrent-accounting-inexact", "props": ["C06"], "detail": what.clone()}));
        }
        if rej != nonmatching || weird != 0 {
            out_v.push(json!({"tag": "non-matching-call-outcome-wrong", "props": ["C06"], "detail": what.clone()}));
        }
        match exit_verdict.lock().unwrap().clone() {
            Some(Ok(())) => {
                if matching != sc.n {
                    out_v.push(json!({"tag": "count-mismatch-not-reported-at-scope-exit", "props": ["C06"], "detail": what.clone()}));
                }
            }
            Some(Err(msg)) => {
                let nums: Vec<usize> = msg.split(|c: char| !c.is_ascii_digit()).filter(|t| !t.is_empty()).filter_map(|t| t.parse().ok()).collect();
                if matching == sc.n {
                    out_v.push(json!({"tag": "spurious-count-mismatch-at-scope-exit", "props": ["C06"], "detail": format!("{what}; scope exit panicked with {msg:?}")}));
                } else if !(nums.contains(&sc.n) && nums.contains(&matching)) {
                    out_v.push(json!({"tag": "scope-exit-message-names-wrong-numbers", "props": ["C06"], "detail": format!("{what}; message {msg:?}")}));
                }
            }
            None => out_v.push(json!({"tag": "scope-exit-not-reached", "props": ["C06"], "detail": what.clone()})),
        }
        if over > 0 && sc.calls.len() > 1 {
            probes.insert("over_call_under_contention".into(), json!(1));
        }
    }
    if sc.family == "arms" && crate::arms_gen::ARM_COUNT > 0 {
        let k = sc.index as usize % crate::arms_gen::ARM_COUNT;
        let all = OUTCOMES.lock().unwrap_or_else(|p| p.into_inner()).clone();
        let over: Option<u32> = all.iter().find(|(t, _, _)| *t == usize::MAX).map(|(_, _, c)| *c as u32);
        let outs: Vec<_> = all.into_iter().filter(|(t, _, _)| *t != usize::MAX).collect();
        let bad = outs.iter().filter(|(_, _, c)| *c != 0).count();
        let what = format!("arm `{}`: times = {} and exactly {} matching call(s) made from {} thread(s)", crate::arms_gen::arm_name(k), sc.n, outs.len(), sc.calls.len());
        if bad > 0 {
            out_v.push(json!({"tag": "call-within-budget-rejected-under-concurrency", "props": ["C06", "C08"], "detail": format!("{what}: {bad} call(s) panicked")}));
        }
        if over == Some(0) {
            out_v.push(json!({"tag": "call-beyond-budget-admitted", "props": ["C06", "C08"], "detail": format!("{what}; then one more matching call, which was admitted instead of panicking at the call")}));
        }
        match (exit_verdict.lock().unwrap().clone(), over) {
            (Some(Ok(())), None) => {}
            (Some(Err(_)), Some(_)) => {
                probes.insert("over_call_after_concurrent_budget".into(), json!(1));
            }
            (Some(Ok(())), Some(_)) => out_v.push(json!({"tag": "count-mismatch-not-reported-at-scope-exit", "props": ["C06", "C08"], "detail": format!("{what}; then one more matching call: scope exit did not panic although the count differs from N")})),
            (Some(Err(msg)), None) => out_v.push(json!({"tag": "concurrent-accounting-inexact", "props": ["C06", "C08"], "detail": format!("{what}; scope exit panicked with {msg:?}")})),
            (None, _) => out_v.push(json!({"tag": "scope-exit-not-reached", "props": ["C06", "C08"], "detail": what})),
        }
    }
    let mut faults = serde_json::Map::new();
    for f in FAULTS.lock().unwrap_or_else(|p| p.into_inner()).iter() {
        let e = faults.entry(f.clone()).or_insert(json!(0));
        *e = json!(e.as_u64().unwrap_or(0) + 1);
    }
    if rep.preemptions > 0 {
        faults.insert("preemptions".into(), json!(rep.preemptions));
    }
    if rep.poisoned_acquisitions > 0 {
        probes.insert("lock_acquired_poisoned".into(), json!(rep.poisoned_acquisitions));
    }
    if rep.lock_handovers > 0 {
        probes.insert("lock_handed_over_to_waiter".into(), json!(rep.lock_handovers));
    }
    if rep.blocked_on_lock > 0 {
        probes.insert("thread_blocked_on_guard".into(), json!(rep.blocked_on_lock));
    }
    sh.note(PH_DONE, 0, 0, 0);
    json!({
        "violations": out_v,
        "digest": format!("{:016x}", rep.trace_hash),
        "trace_hash": format!("{:016x}", rep.trace_hash),
        "steps": rep.steps,
        "choice_points": rep.choice_points,
        "probes": probes,
        "faults": faults,
        "schedule_len": rep.schedule.len(),
    })
}
