#!/bin/sh
# Build the harness from files on disk only (offline).
cd "$(dirname "$0")" && exec ./check --setup
