#!/bin/sh
# usage: tools/seed_sweep.sh [seeds...]   every quick check under several VERIF_SEED values on the
# current tree; prints only alarms.  Evidence/replays of these trial runs go to /tmp.
cd "$(dirname "$0")/.." || exit 2
[ $# -eq 0 ] && set -- 2 3 4 5 777 20261004
rc=0
for seed in "$@"; do
  for id in C01 C02 C03 C04 C05 C06 C07 C08 C09 C10 C11 C12 C13 C14 C15 C16 C17; do
    out=$(VERIF_SEED=$seed VERIF_EVIDENCE_DIR=/tmp/verif-trial-evidence VERIF_REPLAYS_DIR=/tmp/verif-trial-replays ./check $id quick 2>&1)
    echo "$out" | grep -E "^(VIOLATION|KNOWN|HARNESS|violation)" | cut -c1-300 && rc=1
  done
  echo "seed $seed done"
done
exit $rc
