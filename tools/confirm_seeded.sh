#!/bin/sh
# usage: tools/confirm_seeded.sh <ID>   — confirm, in the sub-agent's scratch worktree, that the
# delivered change (a) keeps the 71 baseline tests green, (b) makes the demo fail, (c) demo passes without it.
ID="$1"; WT=/tmp/wt_$ID
cd "$WT" || exit 2
git checkout -q -- src
DEMO=$(grep -v "^#" DELIVER/demo_cmd.txt | grep -v "^ *$" | head -1)
echo "demo cmd: $DEMO"
echo "== without change: demo"
sh -c "$DEMO" 2>&1 | tail -3
git apply DELIVER/patch.diff || { echo "patch does not apply"; exit 2; }
echo "== with change: baseline (all tests except the demo)"
CARGO_NET_OFFLINE=true cargo nextest run --workspace --no-fail-fast --test-threads 8 --offline 2>&1 | grep -E 'Summary|FAIL \[' | sort | uniq -c | tail -5
echo "== with change: demo"
sh -c "$DEMO" 2>&1 | tail -3
git checkout -q -- src
echo "[source reverted]"
