#!/bin/sh
# background: score every seeded change against every check, on snapshots (vp run --with-repo)
export VERIF_REPO="$VP_RUN_REPO"
# the repo snapshot needs build output for nextest; warm it once
(cd "$VERIF_REPO" && cp /repo/Cargo.lock . 2>/dev/null; CARGO_NET_OFFLINE=true cargo nextest run --workspace --no-fail-fast --test-threads 8 --offline 2>&1 | tail -1)
python3 tools/score_seeded.py --all-checks
mkdir -p /root/.vp/matrix_out && for d in seeded/*; do cp $d/result.json /root/.vp/matrix_out/$(basename $d).json 2>/dev/null; done
echo MATRIX-DONE
