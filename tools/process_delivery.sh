#!/bin/sh
# usage: tools/process_delivery.sh <worktree-prefix> <suffix> <ID>...
# confirm each delivered change in its scratch worktree, copy it to seeded/<ID>-<suffix>, score it, remove the worktree
PFX="$1"; SFX="$2"; shift 2
cd /verif
for id in "$@"; do
  WT=${PFX}_$id
  [ -d "$WT/DELIVER" ] || { echo "$id: no DELIVER"; continue; }
  echo "######## $id-$SFX"
  sed "s|/tmp/wt_|${PFX}_|g" tools/confirm_seeded.sh > /tmp/confirm_tmp.sh
  sed -i "s|WT=${PFX}_\$ID|WT=$WT|" /tmp/confirm_tmp.sh
  sh /tmp/confirm_tmp.sh $id 2>&1 | grep -E 'Summary|does not apply|reverted|test result' | head -5
  mkdir -p seeded/$id-$SFX && cp -r $WT/DELIVER/* seeded/$id-$SFX/
  python3 tools/score_seeded.py $id-$SFX 2>&1 | tail -3 | cut -c1-400
  git -C /repo worktree remove --force $WT
done
git -C /repo worktree prune
