#!/bin/sh
# background: score every seeded change against its own property's quick check, on snapshots
# (vp run --with-repo -- sh tools/rescore_bg.sh); results are copied to /root/.vp/rescore_out
export VERIF_REPO="$VP_RUN_REPO"
(cd "$VERIF_REPO" && cp /repo/Cargo.lock . 2>/dev/null; CARGO_NET_OFFLINE=true cargo nextest run --workspace --no-fail-fast --test-threads 8 --offline 2>&1 | tail -1)
python3 tools/score_seeded.py
rm -rf /root/.vp/rescore_out; mkdir -p /root/.vp/rescore_out && for d in seeded/*/; do cp $d/result.json /root/.vp/rescore_out/$(basename $d).json 2>/dev/null; done
echo RESCORE-DONE
