#!/bin/sh
# background thorough sweep on snapshots of /verif and /repo
export VERIF_REPO="$VP_RUN_REPO"
for p in C15 C16 C11 C02 C01 C04 C06 C05 C12 C03 C17 C13 C10 C14 C07 C09 C08; do
  echo "=== $p thorough $(date +%T)"
  ./check $p thorough 2>&1 | cut -c1-600 | tail -12
done
