#!/bin/sh
# background: every benign refactoring against every quick check, on snapshots
# (vp run --with-repo -- sh tools/benign_bg.sh); results are copied to /root/.vp/benign_out.json
export VERIF_REPO="$VP_RUN_REPO"
(cd "$VERIF_REPO" && cp /repo/Cargo.lock . 2>/dev/null; true)
python3 tools/run_benign.py
cp benign/results.json /root/.vp/benign_out.json
echo BENIGN-DONE
