#!/bin/sh
# usage: tools/try_mutant.sh <patch.diff> <check-id>...   (applies to /repo, runs, always reverts)
set -u
export VERIF_EVIDENCE_DIR=/tmp/verif-trial-evidence VERIF_REPLAYS_DIR=/tmp/verif-trial-replays
P="$1"; shift
cd /repo || exit 2
if ! git diff --quiet; then echo "REPO DIRTY - refusing"; exit 2; fi
git apply "$P" || { echo "PATCH DOES NOT APPLY"; exit 2; }
trap 'cd /repo && git checkout -- . && git clean -fdq tests src 2>/dev/null; echo "[reverted]"' EXIT
echo "== baseline tests with the change"
CARGO_NET_OFFLINE=true cargo nextest run --workspace --no-fail-fast --test-threads 8 --offline 2>&1 | tail -1
cd /verif
for id in "$@"; do
  echo "== check $id quick"
  ./check "$id" quick 2>&1 | grep -E '^(OK|VIOLATION|KNOWN|HARNESS|violation)' | cut -c1-330
done
