#!/usr/bin/env python3
"""Regenerate /verif/MANIFEST.json from lib/plan.py + lib/claims.py (keeps it valid at all times)."""
import json
import os
import sys

VERIF = os.path.dirname(os.path.dirname(os.path.abspath(__file__)))
sys.path.insert(0, os.path.join(VERIF, "lib"))
from plan import PLAN  # noqa: E402
from claims import CLAIMS, NOT_APPLICABLE  # noqa: E402

ids = [json.loads(l)["id"] for l in open(os.path.join(VERIF, "properties.jsonl"))]
checks = []
for pid in ids:
    if pid in PLAN and pid in CLAIMS:
        c = CLAIMS[pid]
        engines = sorted(set(p["engine"] for p in PLAN[pid]["parts"]))
        checks.append({
            "property_id": pid,
            "quick_cmd": "./check %s quick" % pid,
            "thorough_cmd": "./check %s thorough" % pid,
            "evidence_file": "evidence/%s.json" % pid,
            "replay_cmd_template": "./check --replay {path}",
            "engine": "+".join(engines),
            "level_claimed": {"category": PLAN[pid]["level"], "text": c["text"], "design_ref": c["design_ref"]},
            "level_note": c["note"],
            "technique": c["technique"],
        })
na = []
for pid in ids:
    if pid not in [c["property_id"] for c in checks]:
        na.append({"property_id": pid, "reason": NOT_APPLICABLE.get(pid, "check not built yet (work in progress; see DESIGN.md section 3)")})
m = {
    "version": 1,
    "setup_cmd": "./setup.sh",
    "hooks": {
        "guard": "none",
        "enable": "no hooks: engine N links /repo unmodified; engines S and T transplant /repo/src at check time (harness/gen/gen.py), nothing in /repo is guarded or instrumented",
        "baseline_off_cmd": "cd /repo && cargo nextest run --workspace --no-fail-fast --test-threads 8 --offline",
        "source_commits": [],
        "add_only": True,
    },
    "engines": [
        {"name": "S", "path": "harness/simos + harness/vsim", "serves_properties": sorted(p for p in PLAN if any(x["engine"] == "S" for x in PLAN[p]["parts"])),
         "kind_free_text": "deterministic simulation: the injector's real source (all arch/OS variants, transplanted at check time) runs against a simulated address space and kernel with seeded layouts, placement policies and injected syscall failures; independent reference interpreters execute the patched bytes"},
        {"name": "N", "path": "harness/vnative", "serves_properties": sorted(p for p in PLAN if any(x["engine"] == "N" for x in PLAN[p]["parts"])),
         "kind_free_text": "deterministic simulation on the real CPU: the unmodified crate patches synthetic and real functions at seed-chosen addresses (ASLR off) with mmap/munmap/mprotect/__clear_cache interposed by the harness executable (ledger + injected ENOMEM/EACCES, injected panics); every scenario in a forked child"},
        {"name": "T", "path": "harness/simsched + harness/vsched", "serves_properties": sorted(p for p in PLAN if any(x["engine"] == "T" for x in PLAN[p]["parts"])),
         "kind_free_text": "deterministic thread scheduler: real threads, one baton, every Mutex/atomic operation a seeded scheduling point; panics as a normal release path"},
    ],
    "checks": checks,
    "notes": "See DESIGN.md. Exit 0 = held on everything explored (KNOWN-FINDING lines possible), 1 = VIOLATION line, 2 = HARNESS-ERROR. VERIF_SEED selects the seed (default 1).",
    "not_applicable": na,
}
json.dump(m, open(os.path.join(VERIF, "MANIFEST.json"), "w"), indent=1)
print("MANIFEST.json: %d checks, %d not claimed" % (len(checks), len(na)))
