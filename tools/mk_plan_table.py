#!/usr/bin/env python3
"""Regenerate the per-property 'as built' table in DESIGN.md from lib/plan.py."""
import os, sys
V = "/verif"
sys.path.insert(0, os.path.join(V, "lib"))
from plan import PLAN
rows = []
for pid in sorted(PLAN):
    for i, p in enumerate(PLAN[pid]["parts"]):
        a = p.get("args", [])
        fam = ""
        if "--family" in a:
            fam = "family " + a[a.index("--family") + 1]
        if "--profile" in a and p["engine"] == "S":
            fam = "profile %s on %s" % (a[a.index("--profile") + 1], a[a.index("--variants") + 1].replace(",", ", "))
        rows.append("| %s | %s | %s | %s | %s | %s |" % (pid if i == 0 else "", p["engine"], p["name"], fam, p["count"].get("quick", ""), p["count"].get("thorough", "")))
table = "| property | engine | part | what | scenarios quick | scenarios thorough |\n|---|---|---|---|---|---|\n" + "\n".join(rows) + "\n"
p = os.path.join(V, "DESIGN.md")
s = open(p).read()
b, e = "<!-- PLAN-TABLE-BEGIN -->", "<!-- PLAN-TABLE-END -->"
s = s[: s.index(b) + len(b)] + "\n" + table + s[s.index(e):]
open(p, "w").write(s)
print(len(rows), "rows")
