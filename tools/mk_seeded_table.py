#!/usr/bin/env python3
"""Regenerate the seeded-change table in DESIGN.md from seeded/*/meta.json + result.json."""
import json, os, re
V = "/verif"
rows = []
for sid in sorted(os.listdir(os.path.join(V, "seeded"))):
    d = os.path.join(V, "seeded", sid)
    try:
        meta = json.load(open(os.path.join(d, "meta.json")))
    except Exception:
        continue
    res = {}
    if os.path.exists(os.path.join(d, "result.json")):
        res = json.load(open(os.path.join(d, "result.json")))
    det = []
    for c, r in sorted(res.get("checks", {}).items()):
        if r["verdict"] == "VIOLATION":
            engines = sorted(set(re.findall(r"\[(\w)/", " ".join(r["tags"]))))
            det.append("%s (%s)" % (c, "+".join(engines)))
        elif r["verdict"] != "OK":
            det.append("%s: %s" % (c, r["verdict"]))
    own = res.get("checks", {}).get(meta.get("property", sid[:3]), {}).get("verdict", "not run")
    note = meta.get("verif_note", "")
    rows.append("| %s | %s | %s | %s | %s |" % (sid, meta.get("summary", "").replace("|", "/")[:230], meta.get("needs", "").replace("|", "/")[:200],
                                                 ", ".join(det) if det else "-", ("own check: " + own) + ((" — " + note) if note else "")))
table = "| seeded change | what it does | what it needs to manifest | caught by (quick) | note |\n|---|---|---|---|---|\n" + "\n".join(rows) + "\n"
p = os.path.join(V, "DESIGN.md")
s = open(p).read()
b, e = "<!-- SEEDED-TABLE-BEGIN -->", "<!-- SEEDED-TABLE-END -->"
if b in s:
    s = s[: s.index(b) + len(b)] + "\n" + table + s[s.index(e):]
    open(p, "w").write(s)
print(table[:3000])
