#!/usr/bin/env python3
"""Apply each seeded change to /repo in turn, run the baseline and the named checks (quick),
always revert, and record the outcome in seeded/<id>/result.json.
usage: tools/score_seeded.py [--all-checks] [seeded-id ...]"""
import json, os, subprocess, sys, time
os.environ["VERIF_EVIDENCE_DIR"] = "/tmp/verif-trial-evidence"
os.environ["VERIF_REPLAYS_DIR"] = "/tmp/verif-trial-replays"
V = os.path.dirname(os.path.dirname(os.path.abspath(__file__)))
REPO = os.environ.get("VERIF_REPO", "/repo")
ALL = ["C%02d" % i for i in range(1, 18)]
args = [a for a in sys.argv[1:] if not a.startswith("--")]
all_checks = "--all-checks" in sys.argv
ids = args or sorted(os.listdir(os.path.join(V, "seeded")))
def sh(cmd, cwd=None, timeout=3600):
    return subprocess.run(cmd, shell=True, cwd=cwd, capture_output=True, text=True, timeout=timeout)
assert sh("git diff --quiet", REPO).returncode == 0, "/repo is dirty"
for sid in ids:
    d = os.path.join(V, "seeded", sid)
    patch = os.path.join(d, "patch.diff")
    if not os.path.exists(patch):
        continue
    prop = sid.split("-")[0]
    res = {"seeded": sid, "property": prop, "repo_head": sh("git log --format=%h -1", REPO).stdout.strip(), "checks": {}}
    r = sh("git apply %s || (git apply --3way %s && git reset -q)" % (patch, patch), REPO)
    if r.returncode != 0 or sh("git diff --quiet", REPO).returncode == 0:
        # (a change written against an earlier tree that a later fix: commit rewrote: its recorded
        # result, with the repo head it was obtained on, is kept)
        print(sid, "PATCH DOES NOT APPLY to this tree; recorded result kept", r.stderr[-200:])
        sh("git reset -q --hard HEAD; git clean -fdq src tests", REPO)
        continue
    res["applies"] = True
    try:
        b = sh("CARGO_NET_OFFLINE=true cargo nextest run --workspace --no-fail-fast --test-threads 8 --offline 2>&1 | tail -1", REPO)
        res["baseline"] = b.stdout.strip()
        extra = []
        try:
            extra = [c for c in json.load(open(os.path.join(d, "meta.json"))).get("reported_by", []) if c != prop]
        except Exception:
            pass
        todo = ALL if all_checks else [prop] + extra
        for c in todo:
            t0 = time.time()
            o = sh("VERIF_REPO=%s ./check %s quick" % (REPO, c), V)
            lines = o.stdout.split("\n")
            tags = sorted(set(l.split("]")[0] + "]" + l.split("]", 1)[1].split(":")[0] for l in lines if l.startswith("violation [")))
            verdict = "VIOLATION" if o.returncode == 1 else ("OK" if o.returncode == 0 else "HARNESS-ERROR")
            res["checks"][c] = {"verdict": verdict, "tags": tags[:6], "wall_s": round(time.time() - t0, 1)}
            print(sid, c, verdict, tags[:3])
    finally:
        sh("git reset -q --hard HEAD; git clean -fdq src tests", REPO)
    json.dump(res, open(os.path.join(d, "result.json"), "w"), indent=1)
assert sh("git diff --quiet", REPO).returncode == 0
