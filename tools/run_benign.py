#!/usr/bin/env python3
"""False-alarm resistance: apply each property-PRESERVING change under /verif/benign to /repo, confirm the
71 baseline tests pass, run every quick check, revert.  Every check must stay quiet (exit 0).
Results -> benign/results.json"""
import json, os, subprocess, sys, time
os.environ["VERIF_EVIDENCE_DIR"] = "/tmp/verif-trial-evidence"
os.environ["VERIF_REPLAYS_DIR"] = "/tmp/verif-trial-replays"
V = os.path.dirname(os.path.dirname(os.path.abspath(__file__)))
REPO = os.environ.get("VERIF_REPO", "/repo")
ALL = ["C%02d" % i for i in range(1, 18)]
def sh(cmd, cwd=None):
    return subprocess.run(cmd, shell=True, cwd=cwd, capture_output=True, text=True)
assert sh("git diff --quiet", REPO).returncode == 0, "/repo dirty"
names = [a for a in sys.argv[1:]] or sorted(f[:-5] for f in os.listdir(os.path.join(V, "benign")) if f.endswith(".diff"))
out = {}
try:
    out = json.load(open(os.path.join(V, "benign", "results.json")))
except Exception:
    pass
for n in names:
    p = os.path.join(V, "benign", n + ".diff")
    r = sh("git apply " + p, REPO)
    if r.returncode != 0:
        print(n, "does not apply", r.stderr[-200:]); continue
    res = {"note": open(os.path.join(V, "benign", n + ".txt")).read().strip(), "repo_head": sh("git log --format=%h -1", REPO).stdout.strip(), "checks": {}}
    try:
        b = sh("CARGO_NET_OFFLINE=true cargo nextest run --workspace --no-fail-fast --test-threads 8 --offline 2>&1 | tail -1", REPO)
        res["baseline"] = b.stdout.strip()
        for c in ALL:
            o = sh("./check %s quick" % c, V)
            verdict = {0: "OK", 1: "VIOLATION", 2: "HARNESS-ERROR"}.get(o.returncode, str(o.returncode))
            res["checks"][c] = verdict
            if verdict != "OK":
                lines = [l for l in o.stdout.split("\n") if l.startswith(("violation", "HARNESS", "note"))][:3]
                res.setdefault("alarms", {})[c] = lines
                print(n, c, verdict, lines[:2])
    finally:
        sh("git reset -q --hard HEAD; git clean -fdq src tests", REPO)
    quiet = all(v == "OK" for v in res["checks"].values())
    print(n, "baseline:", res.get("baseline", "")[-40:], "| all quiet" if quiet else "| ALARMS")
    out[n] = res
    json.dump(out, open(os.path.join(V, "benign", "results.json"), "w"), indent=1)
assert sh("git diff --quiet", REPO).returncode == 0
