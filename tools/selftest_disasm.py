#!/usr/bin/env python3
"""Cross-validation of the reference interpreters (engine S oracle) against an independent
disassembler (llvm-mc 14): every instruction the interpreters executed while following a
redirection must decode, in llvm-mc, to exactly one instruction of the same length with a mnemonic
from the expected set, and for PC-relative branches the destination computed from llvm-mc's operand
must equal the address the interpreter went to.  A mismatch is a harness error (exit 2): it means
the oracle, not the code under test, is wrong."""
import json, os, re, subprocess, sys
V = "/verif"
VSIM = os.path.join(V, "harness", "target", "release", "vsim")
PLAN = [("x86_64_linux", "C01", 400), ("x86_64_windows", "C01", 200), ("x86_64_macos", "C01", 100),
        ("aarch64_linux", "C15", 200), ("aarch64_linux", "C01", 300), ("aarch64_macos", "C01", 150), ("aarch64_windows", "C01", 150),
        ("arm_linux", "C16", 400), ("arm_linux", "C10", 200)]
OKM = {"x86_64": {"jmp", "jmpq", "movabsq", "movq", "movl", "retq", "nop", "xorl", "xorq", "movb"},
       "aarch64": {"b", "br", "ret", "mov", "movk", "movz", "nop", "adrp", "add", "ldr"},
       "arm": {"ldr", "ldr.w", "bx", "nop", "mov", "b", "b.w", "movw", "movt"}}

def mc(triple, lines):
    inp = "\n".join(" ".join("0x" + b[i:i + 2] for i in range(0, len(b), 2)) for b in lines) + "\n"
    r = subprocess.run(["llvm-mc", "--disassemble", "--triple=" + triple], input=inp, capture_output=True, text=True)
    out = [l.strip() for l in r.stdout.split("\n") if l.strip() and not l.strip().startswith(".")]
    return out, r.stderr

def main():
    bad = 0
    total = 0
    branches = 0
    for variant, profile, count in PLAN:
        r = subprocess.run([VSIM, "dump-traces", "--profile", profile, "--variants", variant, "--seed", "1", "--count", str(count)], capture_output=True, text=True)
        if r.returncode != 0:
            print("HARNESS-ERROR selftest disasm: vsim dump-traces failed for", variant, r.stderr[-300:])
            return 2
        traces = json.loads(r.stdout.strip().split("\n")[-1])
        groups = {}
        for t in traces:
            arch = t["arch"]
            thumb = t["thumb_entry"]
            for k, (addr, hx) in enumerate(t["insns"]):
                nxt = t["insns"][k + 1][0] if k + 1 < len(t["insns"]) else t["final_pc"]
                triple = {"x86_64": "x86_64", "aarch64": "aarch64"}.get(arch)
                if arch == "arm":
                    triple = "thumbv7" if thumb else "armv7"
                groups.setdefault((arch, triple), []).append((addr, hx, nxt))
                if arch == "arm":
                    # a bx may switch state; traces here end at the bx, so no tracking is needed
                    pass
        for (arch, triple), items in groups.items():
            uniq = sorted(set(items))
            outs, err = mc(triple, [hx for _, hx, _ in uniq])
            if len(outs) != len(uniq) or "invalid" in err or "warning" in err:
                print("MISMATCH %s/%s: llvm-mc produced %d instructions for %d inputs; stderr: %s" % (variant, triple, len(outs), len(uniq), err[:300]))
                bad += 1
                continue
            for (addr, hx, nxt), asm in zip(uniq, outs):
                total += 1
                mn = asm.split()[0]
                if mn not in OKM[arch]:
                    print("MISMATCH %s: %s at %#x decodes to unexpected %r" % (variant, hx, addr, asm))
                    bad += 1
                    continue
                m = re.match(r"(jmp|b)\s+#?(-?\d+)$", asm)
                if m:
                    branches += 1
                    disp = int(m.group(2))
                    if arch == "x86_64":
                        dest = (addr + len(hx) // 2 + disp) & 0xFFFFFFFFFFFFFFFF
                    elif arch == "aarch64":
                        dest = (addr + disp) & 0xFFFFFFFFFFFFFFFF
                    else:
                        dest = None
                    if dest is not None and dest != nxt:
                        print("MISMATCH %s: %s at %#x: llvm-mc says branch to %#x, interpreter went to %#x" % (variant, asm, addr, dest, nxt))
                        bad += 1
        print("%-16s %-4s traces=%d" % (variant, profile, len(traces)))
    print("cross-validated %d distinct executed instructions (%d pc-relative branches) against llvm-mc: %d mismatch(es)" % (total, branches, bad))
    if bad:
        print("HARNESS-ERROR selftest disasm: the reference interpreters disagree with llvm-mc")
        return 2
    return 0

if __name__ == "__main__":
    sys.exit(main())
